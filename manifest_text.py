# Prose for MANIFEST.json, per property.
ALL = ["C%02d" % i for i in range(1, 21)]

TEXT = {
    "C01": dict(
        technique="property-based testing (rapid): generated templates/populations serialized by the library, framing recomputed from the bytes by an independent reference",
        level_text="Exploration: every generated message (generic templates to depth 4, all tests/fix44 types, default and arbitrary framing tags, steered onto every BodyLength digit boundary and checksum class) is serialized and its BodyLength/CheckSum/field order re-derived from the bytes alone; a metamorphic step mutates the same object and re-serializes. Holds on N sampled cases, not for all.",
        level_note="Trusted: the harness's reference framing checker (harness/ref, itself tested on hand-counted vectors) and the Go toolchain. Values never contain SOH; header and trailer components are always set.",
        design_ref="DESIGN.md section 4, C01",
    ),
    "C17": dict(
        technique="property-based testing (rapid): wire token list compared with a model-derived list of populated leaves, per installation route and message part",
        level_text="Exploration: for generated populations using every public constructor, Set, KeyValue.Set and FromBytes of every value type in header, body, trailer, components and group entries, the tokenized output must equal the model's list (tags, order, group counts, canonical texts; Float by a validity predicate), also after a mutation of the same object and for the standalone Component/Items serializers.",
        level_note="Trusted: harness/ref tokenizer and the model in harness/gen. The known finding 'trailer-fields-dropped' (KNOWN_FINDINGS.jsonl) is reported as KNOWN-FINDING and the remaining comparison continues without the trailer leaves.",
        design_ref="DESIGN.md section 4, C17",
    ),
}

_claimed = set(TEXT)
NOT_APPLICABLE = [dict(property_id=p, reason="check not built yet in this round of work; the design in DESIGN.md section 4 applies and it will be claimed once its check exists")
                  for p in ALL if p not in _claimed]
