# Prose for MANIFEST.json, per property.
ALL = ["C%02d" % i for i in range(1, 21)]

TEXT = {
    "C01": dict(
        technique="property-based testing (rapid): generated templates/populations serialized by the library, framing recomputed from the bytes by an independent reference",
        level_text="Exploration: every generated message (generic templates to depth 4, all tests/fix44 types, default and arbitrary framing tags, steered onto every BodyLength digit boundary and checksum class) is serialized and its BodyLength/CheckSum/field order re-derived from the bytes alone; a metamorphic step mutates the same object and re-serializes, and the byte slices returned earlier must still hold what they held (a caller may have queued them); components, groups and entries are assembled in every way generated code offers (in place, fresh object put into its slot before or after it is populated, entry added before or after it is populated, entry made from Group.AsTemplate). A second engine runs four drawn cases through the same check concurrently (state shared between calls inside the library cannot hide). Holds on N sampled cases, not for all.",
        level_note="Trusted: the harness's reference framing checker (harness/ref, itself tested on hand-counted vectors) and the Go toolchain. Values never contain SOH; header and trailer components are always set.",
        design_ref="DESIGN.md section 4, C01",
    ),
    "C17": dict(
        technique="property-based testing (rapid): wire token list compared with a model-derived list of populated leaves, per installation route and message part",
        level_text="Exploration: for generated populations using every public constructor, Set, KeyValue.Set and FromBytes of every value type in header, body, trailer, components and group entries, the tokenized output must equal the model's list (tags, order, group counts, canonical texts; Float by a validity predicate), also after a mutation of the same object and for the standalone Component/Items serializers; components, groups and entries are assembled in every way generated code offers (in place / fresh object Set into its slot / entry added before it is populated / entry made from Group.AsTemplate). A second engine runs four drawn cases through the same check concurrently.",
        level_note="Trusted: harness/ref tokenizer and the model in harness/gen. Header, body and trailer leaves are all compared (the trailer defect the check found first is repaired).",
        design_ref="DESIGN.md section 4, C17",
    ),
    "C02": dict(
        technique="property-based testing (rapid): serialize/parse round trip judged against the generated model, leaf by leaf, plus re-serialization equality",
        level_text="Exploration: generated templates (nesting to depth 4, groups in group entries, components, every value type, decoy strings, all tests/fix44 types) are serialized, parsed by encoding.Unmarshal and by DefaultUnmarshaller{Strict:false} into a fresh message, every leaf compared with the generated value (ints exact, floats bit-exact, UTC times, bytes), group entry counts and order, and the parsed message re-serialized to the identical bytes. A second engine runs four drawn cases through the same check concurrently.",
        level_note="Trusted: the model/compare code in harness/gen and harness/build. C02's preconditions hold by construction (trailers are populated as well); tests/fix44 MarketDataSnapshotFullRefresh is skipped because its generated group type repeats tags of the message (consequence of the generator finding recorded under C12).",
        design_ref="DESIGN.md section 4, C02",
    ),
    "C03": dict(
        technique="property-based generation of base messages x exhaustive enumeration of each base's single-byte damage neighbourhood; oracle: accepted implies independently confirmed framing",
        engine="rapid",
        level_text="Fault enumeration: for every generated base message (including adversarial ones that carry a decoy CheckSum in a value, with a padding byte solved so that one substitution makes the decoy self-consistent) ALL substitutions, insertions, deletions and proper prefixes are offered to both parser entry points; any accepted variant must be confirmed framed by the independent reference. Complete per base message, sampled over base messages. A second engine offers a sampled neighbourhood from 4 goroutines while 3 others keep parsing and serializing the intact message: the check must be sound whatever else the process parses meanwhile.",
        level_note="Trusted: harness/ref framing checker. Variants that remain consistently framed (NUL inserted into / deleted from the BeginString value) are valid messages; they are counted (still_framed_variants) and may be accepted.",
        design_ref="DESIGN.md section 4, C03",
    ),
    "C06": dict(
        technique="stateful property-based testing (rapid histories) against the real session in a synctest bubble; history monitor as oracle",
        level_text="Exploration: inbound histories with every class of Logon (interval below/at/inside/at/above limits, non-numeric, absent; method allowed/disallowed/absent; credentials approved/refused; damaged) mixed with all other traffic and local actions are fed to handler+session of both roles; after every step the monitor checks IsLogged against a model of which acceptable Logon is in force, the Logon answer's echo of interval and method, exactly one Reject with RefSeqNum/RefTagID otherwise, EventLogon counts, and the initiator's first message.",
        level_note="Trusted: testing/synctest (virtual clock, Wait for quiescence) and the monitor. Histories keep idle time below the smallest negotiable interval so that timers do not act.",
        design_ref="DESIGN.md section 4, C06",
    ),
    "C07": dict(
        technique="stateful property-based testing (rapid histories without an acceptable Logon, pre-populated shared store); invariant over emitted message types",
        level_text="Exploration: histories that by construction never contain an acceptable Logon (resend requests over all ranges, test requests, heartbeats, logouts, refused/damaged Logons, application/unknown types, idle minutes) against an empty store and a store holding an earlier session's messages; every emitted message must be Logon, Logout or Reject and none may equal a stored message of the other session.",
        level_note="Trusted: synctest and the type whitelist. Local Logout()/Stop() calls before any logon are part of the histories (a Logout may go out; nothing else may follow). A second engine runs the unauthenticated connection next to a live logged-on one on a real Acceptor with the shared store.",
        design_ref="DESIGN.md section 4, C07",
    ),
    "C08": dict(
        technique="property-based testing (rapid timing patterns) on a virtual clock (testing/synctest); gap bounds as oracle",
        level_text="Exploration: send/TestRequest instants are generated relative to heartbeat deadlines (just before, at, just after, N/10 around, bursts, long idle) for N in 1..120 over up to 40 periods of virtual time; all outbound gaps must be <= N+N/10 and unsolicited Heartbeats >= N after the previous outbound message; a sixth of the application sends are refused by an application outgoing handler (not transmitted, so they must not postpone the heartbeat); a handler may refuse one unsolicited Heartbeat (one more period allowed) and the application may remove its own all-types handler in mid-history (the session's own handlers must stay). No wall-clock thresholds.",
        level_note="Trusted: synctest's virtual time. Re-logon with another interval is generated for the acceptor only.",
        design_ref="DESIGN.md section 4, C08",
    ),
    "C09": dict(
        technique="property-based testing (rapid arrival patterns) on a virtual clock; deadline windows as oracle",
        level_text="Exploration: silence / late / answered / steady inbound patterns for N in 1..120; the monitor recomputes from the inbound instants when a TestRequest must and must not be sent and when the disconnect event and handler stop must and must not happen, with windows [T, T+T/10]; in a fifth of the non-steady histories an application outgoing handler refuses every TestRequest (the attempts take the probes' place: a peer silent for a second period is disconnected all the same); for the acceptor a quarter of the histories run the pattern in a second logon on the same connection, and a sixth continue after an answered Logout with the connection left open (or after a local Logout() the peer never answers). A second engine runs the session on the real Acceptor/Initiator with a write timeout much shorter than the interval and a peer that is never silent for N seconds: never probed, never disconnected.",
        level_note="Trusted: synctest's virtual time. Socket closing is observed in C13's full rig, not here.",
        design_ref="DESIGN.md section 4, C09",
    ),
    "C10": dict(
        technique="stateful property-based testing (rapid): recorded first transmissions as reference model for retransmissions; small-number enumeration of (stored, received) Logon sequence numbers",
        level_text="Exploration: outbound prefixes of mixed administrative and application messages followed by ResendRequests over all range classes; emitted retransmissions are compared byte for byte with the recorded first transmission of the same number, must lie in the requested range and must be complete for ranges inside the sent range (e=0: through the last). A second engine checks the gap ResendRequest on Logon for (c,r) pairs against a preset counter store, a third one lets a real earlier logon (traffic while probing, local or peer logout, or a dropped connection) leave the expected number behind and then logs on again on the same connection or as a new session on the same stores. Engine 1 also runs with an application handler that stamps messages, with a message store that keeps messages per StorageID identity, and on stores re-used after a counter reset; the gap engine also covers Logons with ResetSeqNumFlag and an incoming counter reset by the application.",
        level_note="Trusted: synctest and the recorder. Known finding resend-wrong:reused-object (application reuses a message object) is reported as KNOWN-FINDING; all other mismatches are violations.",
        design_ref="DESIGN.md section 4, C10",
    ),
    "C11": dict(
        technique="property-based fuzzing (rapid): unstructured and structure-aware hostile inputs, framed by an independent assembler so that they pass the integrity check; oracle: returns without panic within a watchdog",
        level_text="Exploration: raw byte strings of eight classes and correctly framed hostile token lists (random, and near-valid populations with token-level damage) are parsed into generated nested-group templates and every tests/fix44 type by both entry points, and looked up with fix.ValueByTag, with slices presented capacity-clamped and as prefixes of larger buffers.",
        level_note="Trusted: recover() observes every panic on the calling goroutine; a 60 s per-call watchdog defines 'hang'. The session engine hands correctly framed admin messages with token-level damage and extreme numbers (MinInt64..MaxUint64, signs, leading zeros, exponents) to a running session in every state reached by well-formed traffic and local Logout()/Send() calls in between; the transport engine feeds hostile chunks through the real Acceptor and Initiator and requires the serving call to return afterwards (no goroutine of the inbound path may remain); BodyLengths far from the real length are declared in the framed and session engines.",
        design_ref="DESIGN.md section 4, C11",
    ),
    "C14": dict(
        technique="stateful property-based testing (rapid): echo equality and answer order in bursts, real session in a synctest bubble",
        level_text="Exploration: TestReqIDs of 1-5000 arbitrary non-SOH bytes (decoys included) at arbitrary positions of logged-on histories and in bursts delivered without waiting; exactly one fresh Heartbeat per request with the identical ID, in request order, before Rejects of later inbound messages. A transport engine sends IDs around the reader's buffer sizes through a real connection, and a third engine serves 2-3 connections from ONE session.Opts while one connection's answer is held back in its store: every peer gets exactly its own IDs back.",
        level_note="Trusted: synctest; retransmissions are recognised by their sequence number and excluded.",
        design_ref="DESIGN.md section 4, C14",
    ),
    "C15": dict(
        technique="property-based testing (rapid) on a virtual clock: Logout counts and the exact instant of context cancellation",
        level_text="Exploration: peer logout, local logout + answer, and Stop with close timeout {0,1ms,1s,30s} x answer {never, immediately, half, just before, after the deadline} with traffic in between; the cancellation instant is compared to the nanosecond with min(answer, deadline). A quarter of the local endings come while the session's own TestRequest is unanswered (peer silent for N+tolerance); between a local Logout()/Stop() and the answer the peer may ask for a resend of everything, which must not bring the Logout out again; a Stop() whose Logout is refused by an application handler still ends at the deadline, a peer Logout is answered although the counter store fails, and an answer followed at once by the connection's end still ends the wait while the handler is busy.",
        level_note="Trusted: synctest's virtual time; intervals >= 40 s keep the session timers out of these histories.",
        design_ref="DESIGN.md section 4, C15",
    ),
    "C16": dict(
        technique="table-driven property-based testing (rapid surroundings around an enumerated (type, damage, state) table); REF-assembled damaged messages",
        level_text="Exploration: each cell of {5 admin types} x {8 kinds of invalidity} x {4 states: waiting, logged on, after logout, logged on with the session's own TestRequest unanswered} is drawn with generated surroundings; exactly one Reject referencing the offender, IsLogged unchanged, nothing stopped, next valid message handled normally.",
        level_note="Trusted: synctest and harness/ref (which produces exactly the intended damage). Non-numeric fields include the count fields of repeating groups (NoHops in the header, NoMsgTypes in a Logon). The valid traffic that follows may include a ResendRequest for everything, which must retransmit the Reject too. Further damage kinds: CheckSum not written as three digits, BodyLength far from any real length, a non-numeric field inside a header group entry, look-alike 34= texts.",
        design_ref="DESIGN.md section 4, C16",
    ),
    "C18": dict(
        technique="property-based differential testing (rapid): fix.ValueByTag vs an independent tokenizing lookup; unmarshal-vs-model on REF-assembled messages with decoys and affix-related foreign tags",
        level_text="Exploration: correctly framed messages over templates whose tag pools contain decimal prefix/suffix families, with values 't=..' for template tags and foreign fields 1146/14/1461/46-style at field boundaries; (a) lookups of all template tags and affix variants must agree with the reference, (b) parsing must yield exactly the model.",
        level_note="Trusted: harness/ref. Transport-level (c) and session-level (d) boundary recognition are covered by the C04 and session checks where built.",
        design_ref="DESIGN.md section 4, C18",
    ),
    "C19": dict(
        technique="stateful property-based testing with fault injection (rapid): recording/failing store and handlers; invariants over a globally ordered event log",
        level_text="Exploration: generated handler sets (order, type, refusal pattern, registered before/after the session) and store failures; per message: Save-before-wire, handler order, stop at refusal, bytes seen = bytes sent, the field a later handler reads from the object = the field on the wire (handlers modify header or, in place, body fields), Send's error result; per inbound message: all-types then own-type handlers in registration order. A second engine builds an inbound backlog behind a slow application handler and ends the handler by Stop(), the connection-closed error or the teardown: every accepted message is still offered once, in order. The application may remove one of its own handlers in mid-history (all others, the session's included, must go on), and every Save must be made under the identity the saved message itself carries. Incoming handlers may refuse (the other section is still offered), one message object may be sent repeatedly while the peer is not reading, and the store's final content is compared with what was transmitted (also on stores re-used after a counter reset).",
        level_note="Trusted: the event log's global order (one mutex) and synctest. Incoming handlers always accept.",
        design_ref="DESIGN.md section 4, C19",
    ),
    "C04": dict(
        technique="property-based testing (rapid) of the real Acceptor/Initiator over a scripted in-memory net.Conn: generated read partitions, timings, connection counts and concurrent senders; sent-list = delivered-list oracle",
        level_text="Exploration: message streams are cut by generated partitions (one byte per read, cuts inside the CheckSum tag, everything coalesced, chunks > 4096) and fed to 1-4 simultaneous connections with generated virtual delays; the per-connection incoming handler must receive exactly the sent messages (count, order, bytes, one at a time, no cross-talk); concurrently 0-6 goroutines hand messages to Send/SendBatch/SendRaw and the captured outbound stream must split into exactly those messages in hand-off order. The acceptor's new-client callback may take virtual time while the peer's first bytes are already arriving, and the scripted connection honours read deadlines as a socket does. A connection may carry a second subscriber that the application removes in mid-stream (the first must go on receiving), and deliveries are also counted while all connections are still open; the recorder may subscribe per type behind a refusing all-types subscriber, and one message object may be sent twice (changed in between) while the peer is not reading.",
        level_note="Trusted: netsim (own tests: bytes fed = bytes read for any chunking; deadline semantics), harness/ref.Split, synctest.",
        design_ref="DESIGN.md section 4, C04",
    ),
    "C05": dict(
        technique="property-based testing (rapid) of concurrent senders against the real session over netsim, with scheduler yields injected inside store/handler call-outs and runs at GOMAXPROCS 16/4/2/1; wire-numbering invariant on independently tokenized captured bytes",
        level_text="Exploration: 1-8 goroutines x 1-12 sends with generated virtual delays interleave with timer heartbeats, TestRequest answers and Rejects; the injected stores and an outgoing handler yield the processor a generated number of times per call so that a missing critical section reorders numbers on the wire; 1-3 successive sessions share a counter store. Oracle: consecutive MsgSeqNum from the stored counter, identifiers, SendingTime syntax and interval, framing. A second engine runs on the real clock (no bubble) with a counter store of real latency and 2-6 senders: a message's SendingTime must not be earlier than the instant its number was requested from the counter store (a time taken before waiting for the session's turn is stale). A third engine serves 2-3 connections from ONE session.Opts (and optionally one LogonSettings object) with one Save held back inside a store: every message still carries its own session's identifiers and numbers. The session's Location option is drawn.",
        level_note="Trusted: netsim capture, harness/ref, synctest. The harness owns the clock, not the scheduler: interleavings inside one library function are explored by repetition across shards and GOMAXPROCS values only.",
        design_ref="DESIGN.md section 4, C05",
    ),
    "C13": dict(
        technique="fault enumeration: complete cross product of termination causes x injection points x in-flight traffic over fixed script families, plus rapid-drawn scripts and timings; virtual-clock termination oracle and own goroutine-leak detection inside the synctest bubble",
        level_text="Fault enumeration: every (script family, role, buffer size, cause, in-flight shape) tuple is executed on every run, and rapid adds drawn scripts/timings; after a bounded virtual settling time the socket must be closed, the serving call returned, the passive side notified, parked and later sends returned, and no goroutine with a library frame may remain in the bubble (read from runtime.Stack, filtered to the bubble). Drawn scripts may start with a Logon the acceptor refuses. The initiator's first write may fail, a burst may be buffered in the reader when the cause strikes (the application may stop the handler from inside its own handler), and an ended connection's goroutines must be gone before the acceptor itself is closed. A case that never finishes (60 s wall-clock watchdog, confirmed by two replays) is a violation with the case saved.",
        level_note="Trusted: synctest's notion of durable blocking, netsim's fault injection, runtime.Stack. Limits: one parked sender at most; blocked-write expiry is scripted; kernel socket behaviours are represented only by the error/closure classes netsim implements.",
        design_ref="DESIGN.md section 4, C13",
    ),
    "C20": dict(
        technique="property-based scenario generation (rapid) executed under the Go race detector (-race build) inside synctest bubbles",
        engine="rapid",
        level_text="Exploration: generated scenarios make senders, inbound dispatch, both timer goroutines, state queries, handler/event registration and stop/close overlap in virtual time on both roles with the bundled store; the acceptor's logon callback may take virtual time (senders and timers of an earlier logon run meanwhile), up to two sibling connections are built concurrently from the same session.Opts; every race report is a violation keyed by the pair of library functions.",
        level_note="Trusted: the Go race detector (executed pairs only), synctest. Goroutines inside a bubble run truly in parallel; the drawn virtual delays decide which activities overlap.",
        design_ref="DESIGN.md section 4, C20",
    ),
    "C12": dict(
        technique="property-based generation of schema derivations (rapid) + translation validation of the emitted Go package: go/ast comparison and an executed driver, both derived from the harness's own schema model",
        engine="rapid",
        level_text="Translation validation per generated program (schema): the emitted package is parsed and every constant, item list, accessor index/type and constructor binding is compared with expectations computed from an independent schema reader; the package is compiled against /repo's working tree and a driver generated from the same model is run; generation is repeated into another directory and compared byte for byte; planted duplicates must be rejected; tests/fix44 is compared with a fresh generation from source/fix44.xml declaration by declaration.",
        level_note="Trusted: harness/schema (own XML reader/writer), go/parser, the Go compiler. Known finding same-named-groups-conflated is reported as KNOWN-FINDING; expectations mirror the generator's choice for such groups so that everything else is still compared.",
        design_ref="DESIGN.md section 4, C12",
    ),
}

_claimed = set(TEXT)
NOT_APPLICABLE = [dict(property_id=p, reason="check not built yet in this round of work; the design in DESIGN.md section 4 applies and it will be claimed once its check exists")
                  for p in ALL if p not in _claimed]
