module verif/harness

go 1.26.8

require (
	github.com/b2broker/simplefix-go v0.0.0
	pgregory.net/rapid v1.3.0
)

require golang.org/x/sync v0.0.0-20210220032951-036812b2e83c // indirect

replace github.com/b2broker/simplefix-go => /repo
