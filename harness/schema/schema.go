// Package schema is the harness's own model of a FIX XML schema and type
// mapping, with its own reader and writer (it does not use generator/xml.go).
package schema

import (
	"bytes"
	"encoding/xml"
	"fmt"
	"io"
	"os"
	"strings"
)

// RepoDir is the checkout of the library under test: /repo, unless the
// evaluation of a seeded change points VERIF_REPO at a scratch copy (the
// registered checks never set it).
func RepoDir() string {
	if d := os.Getenv("VERIF_REPO"); d != "" {
		return d
	}
	return "/repo"
}

type Member struct {
	Kind     string `json:"kind"` // "field", "component", "group"
	Name     string `json:"name"`
	Required bool   `json:"required,omitempty"`
	// ReqAttr, when not empty, is how the required attribute is spelled in the XML instead of Y/N
	// ("absent": no attribute at all; anything else verbatim). Only the exact text Y means required.
	ReqAttr string    `json:"req_attr,omitempty"`
	Members []*Member `json:"members,omitempty"`
}

type Container struct {
	Name    string    `json:"name"`
	MsgType string    `json:"msgtype,omitempty"`
	MsgCat  string    `json:"msgcat,omitempty"`
	Members []*Member `json:"members"`
}

type EnumVal struct {
	Enum        string `json:"enum"`
	Description string `json:"description"`
}

type FieldDef struct {
	Number string    `json:"number"`
	Name   string    `json:"name"`
	Type   string    `json:"type"`
	Values []EnumVal `json:"values,omitempty"`
}

type Schema struct {
	Type, Major, Minor, ServicePack string
	Header, Trailer                 *Container
	Messages, Components            []*Container
	Fields                          []*FieldDef
}

type TypeEntry struct {
	Name, Cast, Format string
}

type TypeMap struct {
	ConfigName string
	Entries    []TypeEntry
}

// Cast returns the library value type a FIX type maps to (last entry wins, as
// in a map built by iteration).
func (tm *TypeMap) Cast(fixType string) (string, bool) {
	out, ok := "", false
	for _, e := range tm.Entries {
		if e.Name == fixType {
			out, ok = e.Cast, true
		}
	}
	return out, ok
}

// reqAttr renders the required attribute of a member.
func reqAttr(m *Member) string {
	switch m.ReqAttr {
	case "":
		return " required='" + yn(m.Required) + "'"
	case "absent":
		return ""
	}
	return " required='" + esc(m.ReqAttr) + "'"
}

func attr(se xml.StartElement, name string) string {
	for _, a := range se.Attr {
		if a.Name.Local == name {
			return a.Value
		}
	}
	return ""
}

func Load(path string) (*Schema, error) {
	b, err := os.ReadFile(path)
	if err != nil {
		return nil, err
	}
	return Parse(b)
}

func Parse(b []byte) (*Schema, error) {
	dec := xml.NewDecoder(bytes.NewReader(b))
	s := &Schema{}
	var section string // header, trailer, messages, components, fields
	var cur *Container
	var stack []*Member
	var curField *FieldDef
	for {
		tok, err := dec.Token()
		if err == io.EOF {
			break
		}
		if err != nil {
			return nil, err
		}
		switch el := tok.(type) {
		case xml.StartElement:
			name := el.Name.Local
			switch {
			case name == "fix":
				s.Type, s.Major, s.Minor, s.ServicePack = attr(el, "type"), attr(el, "major"), attr(el, "minor"), attr(el, "servicepack")
			case section == "" && (name == "header" || name == "trailer"):
				section = name
				cur = &Container{Name: name}
				if name == "header" {
					s.Header = cur
				} else {
					s.Trailer = cur
				}
			case section == "" && (name == "messages" || name == "components" || name == "fields"):
				section = name
			case section == "messages" && name == "message" && cur == nil:
				cur = &Container{Name: attr(el, "name"), MsgType: attr(el, "msgtype"), MsgCat: attr(el, "msgcat")}
				s.Messages = append(s.Messages, cur)
			case section == "components" && name == "component" && cur == nil:
				cur = &Container{Name: attr(el, "name")}
				s.Components = append(s.Components, cur)
			case section == "fields" && name == "field":
				curField = &FieldDef{Number: attr(el, "number"), Name: attr(el, "name"), Type: attr(el, "type")}
				s.Fields = append(s.Fields, curField)
			case section == "fields" && name == "value" && curField != nil:
				curField.Values = append(curField.Values, EnumVal{attr(el, "enum"), attr(el, "description")})
			case cur != nil && (name == "field" || name == "component" || name == "group"):
				m := &Member{Kind: name, Name: attr(el, "name"), Required: attr(el, "required") == "Y"}
				if len(stack) == 0 {
					cur.Members = append(cur.Members, m)
				} else {
					top := stack[len(stack)-1]
					top.Members = append(top.Members, m)
				}
				stack = append(stack, m)
			default:
				return nil, fmt.Errorf("unexpected element <%s> in section %q", name, section)
			}
		case xml.EndElement:
			name := el.Name.Local
			switch {
			case cur != nil && len(stack) > 0 && (name == "field" || name == "component" || name == "group"):
				stack = stack[:len(stack)-1]
			case name == section && (name == "header" || name == "trailer"):
				section, cur = "", nil
			case name == section:
				section = ""
			case (name == "message" || name == "component") && len(stack) == 0:
				cur = nil
			case name == "field" && section == "fields":
				curField = nil
			}
		}
	}
	if s.Header == nil || s.Trailer == nil {
		return nil, fmt.Errorf("schema lacks header or trailer")
	}
	return s, nil
}

func LoadTypes(path string) (*TypeMap, error) {
	b, err := os.ReadFile(path)
	if err != nil {
		return nil, err
	}
	dec := xml.NewDecoder(bytes.NewReader(b))
	tm := &TypeMap{}
	for {
		tok, err := dec.Token()
		if err == io.EOF {
			break
		}
		if err != nil {
			return nil, err
		}
		if el, ok := tok.(xml.StartElement); ok {
			switch el.Name.Local {
			case "config":
				tm.ConfigName = attr(el, "name")
			case "type":
				tm.Entries = append(tm.Entries, TypeEntry{attr(el, "name"), attr(el, "cast"), attr(el, "format")})
			}
		}
	}
	return tm, nil
}

func esc(s string) string {
	var b bytes.Buffer
	_ = xml.EscapeText(&b, []byte(s))
	return strings.ReplaceAll(b.String(), "'", "&#39;")
}

func yn(b bool) string {
	if b {
		return "Y"
	}
	return "N"
}

func writeMembers(b *bytes.Buffer, ms []*Member, indent string) {
	for _, m := range ms {
		if len(m.Members) == 0 && m.Kind != "group" {
			fmt.Fprintf(b, "%s<%s name='%s'%s/>\n", indent, m.Kind, esc(m.Name), reqAttr(m))
			continue
		}
		fmt.Fprintf(b, "%s<%s name='%s'%s>\n", indent, m.Kind, esc(m.Name), reqAttr(m))
		writeMembers(b, m.Members, indent+"    ")
		fmt.Fprintf(b, "%s</%s>\n", indent, m.Kind)
	}
}

// XML renders the schema in the format cmd/fixgen reads.
func (s *Schema) XML() []byte {
	var b bytes.Buffer
	fmt.Fprintf(&b, "<fix major='%s' type='%s' servicepack='%s' minor='%s'>\n", esc(s.Major), esc(s.Type), esc(s.ServicePack), esc(s.Minor))
	b.WriteString("    <header>\n")
	writeMembers(&b, s.Header.Members, "        ")
	b.WriteString("    </header>\n    <messages>\n")
	for _, m := range s.Messages {
		fmt.Fprintf(&b, "        <message name='%s' msgcat='%s' msgtype='%s'>\n", esc(m.Name), esc(m.MsgCat), esc(m.MsgType))
		writeMembers(&b, m.Members, "            ")
		b.WriteString("        </message>\n")
	}
	b.WriteString("    </messages>\n    <trailer>\n")
	writeMembers(&b, s.Trailer.Members, "        ")
	b.WriteString("    </trailer>\n    <components>\n")
	for _, c := range s.Components {
		fmt.Fprintf(&b, "        <component name='%s'>\n", esc(c.Name))
		writeMembers(&b, c.Members, "            ")
		b.WriteString("        </component>\n")
	}
	b.WriteString("    </components>\n    <fields>\n")
	for _, f := range s.Fields {
		if len(f.Values) == 0 {
			fmt.Fprintf(&b, "        <field number='%s' name='%s' type='%s'/>\n", esc(f.Number), esc(f.Name), esc(f.Type))
			continue
		}
		fmt.Fprintf(&b, "        <field number='%s' name='%s' type='%s'>\n", esc(f.Number), esc(f.Name), esc(f.Type))
		for _, v := range f.Values {
			fmt.Fprintf(&b, "            <value enum='%s' description='%s'/>\n", esc(v.Enum), esc(v.Description))
		}
		b.WriteString("        </field>\n")
	}
	b.WriteString("    </fields>\n</fix>\n")
	return b.Bytes()
}

// XML renders the type mapping in the format cmd/fixgen reads.
func (tm *TypeMap) XML() []byte {
	var b bytes.Buffer
	fmt.Fprintf(&b, "<config name=\"%s\">\n    <types>\n", esc(tm.ConfigName))
	for _, e := range tm.Entries {
		if e.Format != "" {
			fmt.Fprintf(&b, "        <type name=\"%s\" cast=\"%s\" format=\"%s\"/>\n", esc(e.Name), esc(e.Cast), esc(e.Format))
		} else {
			fmt.Fprintf(&b, "        <type name=\"%s\" cast=\"%s\"/>\n", esc(e.Name), esc(e.Cast))
		}
	}
	b.WriteString("    </types>\n</config>\n")
	return b.Bytes()
}

// Field looks a field definition up by name.
func (s *Schema) Field(name string) *FieldDef {
	for _, f := range s.Fields {
		if f.Name == name {
			return f
		}
	}
	return nil
}

func (s *Schema) Component(name string) *Container {
	for _, c := range s.Components {
		if c.Name == name {
			return c
		}
	}
	return nil
}

// Framing field names that the library's Message carries itself.
var Framing = map[string]bool{"BeginString": true, "BodyLength": true, "MsgType": true, "CheckSum": true}

// ValueType is the library value type of a field: the cast of its FIX type,
// except that a field with enumerated values is a String unless it is Bool.
func (s *Schema) ValueType(tm *TypeMap, f *FieldDef) (string, error) {
	cast, ok := tm.Cast(f.Type)
	if len(f.Values) > 0 && cast != "Bool" {
		return "String", nil
	}
	if !ok {
		return "", fmt.Errorf("type %s of field %s is not mapped", f.Type, f.Name)
	}
	return cast, nil
}

// Clone deep-copies a schema.
func (s *Schema) Clone() *Schema {
	out := &Schema{Type: s.Type, Major: s.Major, Minor: s.Minor, ServicePack: s.ServicePack}
	out.Header = cloneC(s.Header)
	out.Trailer = cloneC(s.Trailer)
	for _, m := range s.Messages {
		out.Messages = append(out.Messages, cloneC(m))
	}
	for _, c := range s.Components {
		out.Components = append(out.Components, cloneC(c))
	}
	for _, f := range s.Fields {
		g := *f
		g.Values = append([]EnumVal(nil), f.Values...)
		out.Fields = append(out.Fields, &g)
	}
	return out
}

func cloneC(c *Container) *Container {
	out := &Container{Name: c.Name, MsgType: c.MsgType, MsgCat: c.MsgCat}
	out.Members = cloneM(c.Members)
	return out
}

func cloneM(ms []*Member) []*Member {
	var out []*Member
	for _, m := range ms {
		out = append(out, &Member{Kind: m.Kind, Name: m.Name, Required: m.Required, ReqAttr: m.ReqAttr, Members: cloneM(m.Members)})
	}
	return out
}
