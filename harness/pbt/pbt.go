// Package pbt is the common runner: it drives a (generator, check) pair with
// rapid, keeps evidence, applies the known-findings list, writes the shrunk
// failing case as a replay file, and re-runs a replay file without rapid.
package pbt

import (
	"bufio"
	"encoding/json"
	"fmt"
	"os"
	"runtime"
	"strings"
	"sync"
	"sync/atomic"
	"testing"
	"time"

	"pgregory.net/rapid"

	"verif/harness/evid"
)

// Violation is one way a case broke the property. Key is a structural
// fingerprint of the failure class (compared with KNOWN_FINDINGS.jsonl).
type Violation struct {
	Key string `json:"key"`
	Msg string `json:"msg"`
}

func V(key, format string, a ...any) Violation {
	return Violation{Key: key, Msg: fmt.Sprintf(format, a...)}
}

type knownEntry struct {
	Property string `json:"property"`
	Key      string `json:"key"`
	What     string `json:"what"`
}

var known map[string]knownEntry

func loadKnown() {
	if known != nil {
		return
	}
	known = map[string]knownEntry{}
	path := os.Getenv("VERIF_KNOWN")
	if path == "" {
		return
	}
	f, err := os.Open(path)
	if err != nil {
		return
	}
	defer f.Close()
	sc := bufio.NewScanner(f)
	sc.Buffer(make([]byte, 1<<20), 1<<20)
	for sc.Scan() {
		line := strings.TrimSpace(sc.Text())
		if line == "" || !strings.HasPrefix(line, "{") {
			continue // "fixed: ..." lines are informational
		}
		var e knownEntry
		if json.Unmarshal([]byte(line), &e) == nil && e.Key != "" {
			known[e.Property+"\x00"+e.Key] = e
		}
	}
}

// IsKnown reports whether (property,key) is a listed finding.
func IsKnown(id, key string) (string, bool) {
	loadKnown()
	e, ok := known[id+"\x00"+key]
	return e.What, ok
}

type failDoc struct {
	Property   string      `json:"property"`
	Test       string      `json:"test"`
	Violations []Violation `json:"violations"`
	Case       any         `json:"case"`
}

func writeFail(id, test string, c any, vs []Violation) {
	dir := os.Getenv("VERIF_FAIL")
	if dir == "" {
		return
	}
	path := fmt.Sprintf("%s/fail-%d-%s.json", dir, os.Getpid(), strings.ReplaceAll(test, "/", "_"))
	b, err := json.MarshalIndent(failDoc{Property: id, Test: test, Violations: vs, Case: c}, "", " ")
	if err != nil {
		b = []byte(fmt.Sprintf(`{"property":%q,"test":%q,"error":"case not serializable: %v"}`, id, test, err))
	}
	_ = os.WriteFile(path, b, 0o644)
}

// filter splits violations into unlisted ones and listed (known) ones.
func filter(id string, rec *evid.Rec, vs []Violation) (bad []Violation) {
	for _, v := range vs {
		if what, ok := IsKnown(id, v.Key); ok {
			rec.KnownHit(v.Key, what)
			continue
		}
		bad = append(bad, v)
	}
	return bad
}

// Run drives gen/check. In replay mode (VERIF_REPLAY set) it loads the case
// from the file instead, provided the file was written by this test.
func Run[C any](t *testing.T, id string, rec *evid.Rec, gen func(*rapid.T) C, check func(C, *evid.Rec) []Violation) {
	t.Helper()
	if rp := os.Getenv("VERIF_REPLAY"); rp != "" {
		replay(t, id, rp, rec, check)
		return
	}
	defer rec.Flush()
	curProperty, curTest = id, t.Name()
	rapid.Check(t, func(rt *rapid.T) {
		c := gen(rt)
		// the replay file must hold the case as generated: some checks update the
		// model inside the case while they run (metamorphic steps), so it is
		// serialized before the check sees it
		asGenerated, merr := json.Marshal(c)
		vs := safeCheck(c, rec, check)
		if bad := filter(id, rec, vs); len(bad) > 0 {
			if merr == nil {
				writeFail(id, t.Name(), json.RawMessage(asGenerated), bad)
			} else {
				writeFail(id, t.Name(), c, bad)
			}
			rt.Fatalf("property %s violated: %s: %s", id, bad[0].Key, bad[0].Msg)
		}
	})
}

// curTest names the test whose cases safeCheck is running (one test per process).
var curTest, curProperty string

func safeCheck[C any](c C, rec *evid.Rec, check func(C, *evid.Rec) []Violation) (vs []Violation) {
	// every case runs under the hang watchdog: a call of the code under test that
	// never returns (a deadlock) ends the process with the case saved, instead of
	// eating the job's time budget
	done := Watch(curProperty, curTest, c)
	defer done()
	defer func() {
		if r := recover(); r != nil {
			if IsRapidStop(r) {
				panic(r)
			}
			vs = append(vs, V("harness-panic", "check panicked: %v", r))
		}
	}()
	return check(c, rec)
}

// IsRapidStop recognises rapid's internal control-flow panics so they are
// never swallowed.
func IsRapidStop(r any) bool {
	s := fmt.Sprintf("%T", r)
	return strings.Contains(s, "rapid.")
}

func replay[C any](t *testing.T, id, path string, rec *evid.Rec, check func(C, *evid.Rec) []Violation) {
	b, err := os.ReadFile(path)
	if err != nil {
		t.Fatalf("replay: %v", err)
	}
	var raw struct {
		Property string          `json:"property"`
		Test     string          `json:"test"`
		Case     json.RawMessage `json:"case"`
	}
	if err := json.Unmarshal(b, &raw); err != nil {
		t.Fatalf("replay: %v", err)
	}
	if raw.Test != t.Name() {
		t.Skipf("replay file belongs to %s", raw.Test)
	}
	var c C
	if err := json.Unmarshal(raw.Case, &c); err != nil {
		t.Fatalf("replay: cannot decode case: %v", err)
	}
	fmt.Printf("REPLAY-RAN property=%s test=%s\n", id, t.Name())
	curProperty, curTest = id, t.Name()
	vs := safeCheck(c, rec, check)
	bad := filter(id, rec, vs)
	for _, v := range vs {
		fmt.Printf("replay: %s: %s\n", v.Key, v.Msg)
	}
	if len(bad) > 0 {
		t.Fatalf("property %s violated on replay: %s: %s", id, bad[0].Key, bad[0].Msg)
	}
	fmt.Printf("replay: property %s held on this case\n", id)
}

// ---- hang watchdog ----

type pending struct {
	id, test string
	c        any
	since    time.Time
	limit    time.Duration
}

var (
	curCase   atomic.Pointer[pending]
	watchOnce sync.Once
)

// HangLimit is the wall-clock time after which a single generated case is
// declared hung. Expected cost of a session case is milliseconds; the margin is
// four orders of magnitude so that a loaded machine cannot raise the alarm.
// Packages whose cases legitimately take long (whole damage neighbourhoods in
// codec, generator + compiler runs in gencheck) raise it in an init().
var HangLimit = 60 * time.Second

// Watch registers the case about to be executed with the hang watchdog and
// returns the function to call when it is done. If a case stays pending for
// HangLimit the watchdog writes it as current-case.json and exits the process.
func Watch(id, test string, c any) func() { return WatchFor(HangLimit, id, test, c) }

// WatchFor is Watch with a limit of its own (a single parser call, say).
func WatchFor(limit time.Duration, id, test string, c any) func() {
	watchOnce.Do(func() {
		go func() {
			for {
				time.Sleep(time.Second)
				p := curCase.Load()
				if p != nil && time.Since(p.since) > p.limit {
					if dir := os.Getenv("VERIF_FAIL"); dir != "" {
						b, _ := json.MarshalIndent(failDoc{Property: p.id, Test: p.test, Case: p.c,
							Violations: []Violation{V("hang", "a single case did not finish within %v", p.limit)}}, "", " ")
						_ = os.WriteFile(dir+"/current-case.json", b, 0o644)
					}
					buf := make([]byte, 4<<20)
					buf = buf[:runtime.Stack(buf, true)]
					if dir := os.Getenv("VERIF_FAIL"); dir != "" {
						_ = os.WriteFile(dir+"/hang-stacks.txt", buf, 0o644)
					}
					// goroutines that are blocked but not durably (mutex waiters) explain
					// why a bubble's clock stopped
					for _, g := range strings.Split(string(buf), "\n\n") {
						if strings.Contains(g, "synctest bubble") && !strings.Contains(g, "(durable)") {
							fmt.Println(g)
						}
					}
					fmt.Printf("HANG: property %s: a call did not return within %v\n", p.id, p.limit)
					os.Exit(3)
				}
			}
		}()
	})
	prev := curCase.Load() // an enclosing watch (the whole case) resumes when this one is done
	curCase.Store(&pending{id, test, c, time.Now(), limit})
	return func() { curCase.Store(prev) }
}

// PreRecord writes the case as current-case.json before it is executed, for
// sub-engines in which a failure kills the process (a panic in a library
// goroutine). ClearRecord removes it afterwards.
func PreRecord(id, test string, c any) {
	if dir := os.Getenv("VERIF_FAIL"); dir != "" {
		b, _ := json.Marshal(failDoc{Property: id, Test: test, Case: c,
			Violations: []Violation{V("process-crash", "the process died while this case was running")}})
		_ = os.WriteFile(dir+"/current-case.json", b, 0o644)
	}
}

func ClearRecord() {
	if dir := os.Getenv("VERIF_FAIL"); dir != "" {
		_ = os.Remove(dir + "/current-case.json")
	}
}

// Enumerate runs check on every case of a finite list (no rapid): the
// exhaustive tier of fault-enumeration checks. Replay files work as for Run.
func Enumerate[C any](t *testing.T, id string, rec *evid.Rec, cases []C, check func(C, *evid.Rec) []Violation) {
	t.Helper()
	if rp := os.Getenv("VERIF_REPLAY"); rp != "" {
		replay(t, id, rp, rec, check)
		return
	}
	defer rec.Flush()
	curProperty, curTest = id, t.Name()
	shard, shards := 0, 1
	fmt.Sscan(os.Getenv("VERIF_SHARD"), &shard)
	fmt.Sscan(os.Getenv("VERIF_SHARDS"), &shards)
	if shards < 1 {
		shards = 1
	}
	n := 0
	for i, c := range cases {
		if i%shards != shard {
			continue
		}
		n++
		asGenerated, merr := json.Marshal(c)
		vs := safeCheck(c, rec, check)
		if bad := filter(id, rec, vs); len(bad) > 0 {
			if merr == nil {
				writeFail(id, t.Name(), json.RawMessage(asGenerated), bad)
			} else {
				writeFail(id, t.Name(), c, bad)
			}
			t.Fatalf("property %s violated: %s: %s", id, bad[0].Key, bad[0].Msg)
		}
	}
	fmt.Printf("[enumerate] OK, passed %d of %d cases (shard %d/%d)\n", n, len(cases), shard, shards)
}
