package race

import (
	"fmt"
	"os"
	"regexp"
	"sort"
	"strings"
	"sync"
	"testing"
	"testing/synctest"
	"time"

	simplefixgo "github.com/b2broker/simplefix-go"
	"github.com/b2broker/simplefix-go/fix"
	"github.com/b2broker/simplefix-go/session"
	"github.com/b2broker/simplefix-go/storages/memory"
	"github.com/b2broker/simplefix-go/utils"
	"pgregory.net/rapid"

	"verif/harness/evid"
	"verif/harness/netsim"
	"verif/harness/pbt"
	"verif/harness/ref"
	"verif/harness/rig"
)

// ---------- C20: concurrent use of a session is free of data races ----------
//
// This package is built with -race. Each generated scenario runs the real
// Acceptor/Initiator + session over netsim in a synctest bubble; after the
// scenario the race detector's log (GORACE log_path) is inspected for new
// reports, which are reduced to the pair of innermost library functions.

type PeerOp struct {
	At   int64  `json:"at"`
	Kind string `json:"kind"` // heartbeat | testreq | resend | logon | logout-relogon | app | invalid
}

type RegOp struct {
	At   int64  `json:"at"`
	Kind string `json:"kind"` // onchangestate | handleincoming | handleoutgoing
}

type C20Case struct {
	Role        string    `json:"role"`
	Buf         int       `json:"buf"`
	N           int       `json:"n"`
	Senders     [][]int64 `json:"senders"` // per goroutine: virtual delay before each send
	Peer        []PeerOp  `json:"peer"`
	SilentAt    int64     `json:"silent_at"`  // the peer goes silent at this instant ...
	SilentFor   int64     `json:"silent_for"` // ... for this long (timers expire), then answers
	PollNs      int64     `json:"poll_ns"`    // IsLogged polling period (0: none)
	Regs        []RegOp   `json:"regs"`
	StopKind    string    `json:"stop_kind"` // none | session-stop | handler-stop | serve-close
	StopAt      int64     `json:"stop_at"`
	Horizon     int64     `json:"horizon"`
	Siblings    int       `json:"siblings"`               // acceptor: further connections accepted at the same moment, their sessions built from the same session.Opts
	SharedStore bool      `json:"shared_store,omitempty"` // the sessions of all connections use ONE memory.Storage
	LogonCbNs   int64     `json:"logon_cb_ns"`            // acceptor: virtual time the application's logon callback takes (senders and timers run meanwhile)
}

func genC20(t *rapid.T) *C20Case {
	c := &C20Case{
		Role: rapid.SampledFrom([]string{"acceptor", "initiator"}).Draw(t, "role"),
		Buf:  rapid.SampledFrom([]int{0, 1, 10}).Draw(t, "buf"),
		N:    rapid.SampledFrom([]int{1, 1, 2}).Draw(t, "n"),
	}
	N := int64(c.N) * 1e9
	c.Horizon = N * int64(rapid.IntRange(3, 8).Draw(t, "periods"))
	ns := rapid.IntRange(2, 8).Draw(t, "senders")
	for i := 0; i < ns; i++ {
		var ds []int64
		for j := rapid.IntRange(1, 10).Draw(t, "perSender"); j > 0; j-- {
			ds = append(ds, rapid.SampledFrom([]int64{0, 0, 1, 1000, 1e6, 100e6, N / 2, N}).Draw(t, "sendDelay"))
		}
		c.Senders = append(c.Senders, ds)
	}
	for i := rapid.IntRange(2, 14).Draw(t, "peerOps"); i > 0; i-- {
		c.Peer = append(c.Peer, PeerOp{At: rapid.Int64Range(0, c.Horizon).Draw(t, "peerAt"),
			Kind: rapid.SampledFrom([]string{"heartbeat", "testreq", "testreq", "resend", "resend", "logon", "logout-relogon", "app", "invalid"}).Draw(t, "peerKind")})
	}
	sort.SliceStable(c.Peer, func(i, j int) bool { return c.Peer[i].At < c.Peer[j].At })
	if rapid.IntRange(0, 9).Draw(t, "silence") < 7 {
		c.SilentAt = rapid.Int64Range(0, c.Horizon/2).Draw(t, "silentAt")
		c.SilentFor = N + N/2 + rapid.Int64Range(0, N).Draw(t, "silentFor") // beyond T = N+1s for N=1: probe; maybe disconnect
	}
	if rapid.Bool().Draw(t, "poll") {
		c.PollNs = rapid.SampledFrom([]int64{2e6, 20e6, 200e6}).Draw(t, "pollNs")
	}
	regKinds := []string{"onchangestate", "handleincoming", "handleoutgoing"}
	if c.Role == "initiator" {
		// the initiating application asks for a (new) logon itself, e.g. after the peer logged it out
		regKinds = append(regKinds, "logonrequest")
	}
	for i := rapid.IntRange(0, 5).Draw(t, "regs"); i > 0; i-- {
		c.Regs = append(c.Regs, RegOp{At: rapid.Int64Range(0, c.Horizon).Draw(t, "regAt"),
			Kind: rapid.SampledFrom(regKinds).Draw(t, "regKind")})
	}
	sort.SliceStable(c.Regs, func(i, j int) bool { return c.Regs[i].At < c.Regs[j].At })
	c.StopKind = rapid.SampledFrom([]string{"none", "session-stop", "session-stop", "handler-stop", "serve-close"}).Draw(t, "stopKind")
	c.StopAt = rapid.Int64Range(0, c.Horizon).Draw(t, "stopAt")
	if c.Role == "acceptor" {
		c.LogonCbNs = rapid.SampledFrom([]int64{0, 0, 1000, 1e6, 50e6}).Draw(t, "logonCbNs")
		c.Siblings = rapid.SampledFrom([]int{0, 0, 1, 2}).Draw(t, "siblings")
		// ONE bundled store for the sessions of all connections, as examples/acceptor wires them (not together
		// with ResendRequests: the bundled store keeps message objects, and a retransmission of another
		// session's object while that session is still sending it is the known reused-object finding)
		resends := false
		for _, op := range c.Peer {
			resends = resends || op.Kind == "resend"
		}
		c.SharedStore = c.Siblings > 0 && !resends && rapid.Bool().Draw(t, "sharedStore")
	}
	return c
}

var raceLogPath = func() string {
	for _, kv := range strings.Fields(os.Getenv("GORACE")) {
		if strings.HasPrefix(kv, "log_path=") {
			return strings.TrimPrefix(kv, "log_path=") + "." + fmt.Sprint(os.Getpid())
		}
	}
	return ""
}()

var raceSeen int64

// newRaceReports returns the reports appended to the race log since the last call.
func newRaceReports() []string {
	if raceLogPath == "" {
		return nil
	}
	b, err := os.ReadFile(raceLogPath)
	if err != nil || int64(len(b)) <= raceSeen {
		return nil
	}
	fresh := string(b[raceSeen:])
	raceSeen = int64(len(b))
	var out []string
	for _, r := range strings.Split(fresh, "==================") {
		if strings.Contains(r, "DATA RACE") {
			out = append(out, r)
		}
	}
	return out
}

var frameRe = regexp.MustCompile(`(?m)^  (\S+)\(`)

// racePair reduces a report to the unordered pair of innermost library
// functions of its two accesses ("" if a stack has no library frame).
func racePair(report string) (string, bool) {
	parts := regexp.MustCompile(`(?mi)^(Previous |)(read|write|atomic read|atomic write) at `).Split(report, -1)
	// parts[0] = header, parts[1], parts[2] = the two access stacks (then goroutine creation stacks follow after "Goroutine")
	var fns []string
	for _, p := range parts[1:] {
		if i := strings.Index(p, "\nGoroutine "); i >= 0 {
			p = p[:i]
		}
		fn := ""
		for _, m := range frameRe.FindAllStringSubmatch(p, -1) {
			if strings.HasPrefix(m[1], "github.com/b2broker/simplefix-go") {
				fn = strings.TrimPrefix(m[1], "github.com/b2broker/simplefix-go")
				break
			}
		}
		fns = append(fns, fn)
		if len(fns) == 2 {
			break
		}
	}
	if len(fns) < 2 {
		return "unparsed", false
	}
	lib := fns[0] != "" || fns[1] != ""
	sort.Strings(fns)
	return fns[0] + " <-> " + fns[1], lib
}

func checkC20(c *C20Case, rec *evid.Rec) (vs []pbt.Violation) {
	done := pbt.Watch("C20", "TestC20", c)
	defer done()
	newRaceReports() // drop anything older
	activities := map[string]bool{}
	var amu sync.Mutex
	act := func(s string) { amu.Lock(); activities[s] = true; amu.Unlock() }
	_, trouble := rig.BubbleIsolated(outerT, func() {
		store := memory.NewStorage() // the bundled store, unwrapped
		cfg := rig.Cfg{Role: c.Role, HBMin: 1, HBMax: 60, HBInt: c.N, Methods: []string{"0"}, Approve: "all",
			CloseTimeoutMs: 200, Buf: c.Buf, Sender: "LIB", Target: "PEER", User: "alice", Pass: "secret", LogonCbNs: c.LogonCbNs}
		type got struct {
			s *session.Session
			h interface {
				HandleIncoming(string, simplefixgo.IncomingHandlerFunc) int64
				HandleOutgoing(string, simplefixgo.OutgoingHandlerFunc) int64
				Stop()
			}
			st *memory.Storage // the store this session counts and keeps its messages in
		}
		var gotsMu sync.Mutex
		var gots []got
		var ar *rig.AcceptorRig
		var ir *rig.InitiatorRig
		var conn *netsim.Conn
		var siblings []*netsim.Conn
		var seqMu sync.Mutex
		inSeq := 1
		next := func() string { seqMu.Lock(); defer seqMu.Unlock(); s := fmt.Sprint(inSeq); inSeq++; return s }
		logon := func() []byte {
			return (&rig.InMsg{Type: rig.TLogon, Seq: next(), Fields: []rig.Tok{rig.F(rig.TagEncryptMethod, "0"),
				rig.F(rig.TagHeartBtInt, fmt.Sprint(c.N)), rig.F(rig.TagUsername, "alice"), rig.F(rig.TagPassword, "secret")}}).Bytes()
		}
		if c.Role == "acceptor" {
			opts := rig.OptsFor(cfg) // one options object for the sessions of all connections, as acceptor applications do
			ar = rig.StartAcceptor(c.Buf, time.Minute, func(h simplefixgo.AcceptorHandler) {
				st := memory.NewStorage()
				if c.SharedStore {
					st = store
				}
				s, err := rig.AcceptorSessionOpts(opts, cfg, h, st, st)
				if err != nil {
					panic(err)
				}
				// the connection on which the scenario's own peer ("PEER") speaks first is the main one
				var once sync.Once
				h.HandleIncoming(simplefixgo.AllMsgTypes, func(b []byte) bool {
					once.Do(func() {
						if snd, _ := ref.Lookup(b, rig.TagSenderCompID); snd == "PEER" {
							gotsMu.Lock()
							gots = append(gots, got{s, h, st})
							gotsMu.Unlock()
						}
					})
					return true
				})
			})
			// the scenario's own connection and its siblings are pending at the listener at the
			// same moment: their sessions are built concurrently, from the same options object
			conn = netsim.NewConn("c")
			ar.L.Connect(conn)
			for k := 0; k < c.Siblings; k++ {
				sc := netsim.NewConn(fmt.Sprint("sibling", k))
				siblings = append(siblings, sc)
				ar.L.Connect(sc)
			}
		} else {
			ir = rig.NewInitiatorRig(c.Buf, time.Minute)
			conn = ir.C
			ir.Serve()
			s, err := rig.InitiatorSession(cfg, ir.H, store, store)
			if err != nil {
				panic(err)
			}
			gots = append(gots, got{s, ir.H, store})
		}
		synctest.Wait()
		conn.Feed(logon())
		synctest.Wait()
		// which session serves the scenario's own connection
		var g got
		gotsMu.Lock()
		if len(gots) > 0 {
			g = gots[0]
		}
		gotsMu.Unlock()
		if g.s == nil {
			panic("harness: the scenario's own connection was not identified")
		}
		sess := g.s
		for k, sc := range siblings {
			act("sibling-connection")
			sc.Feed((&rig.InMsg{Type: rig.TLogon, Seq: "1", Sender: fmt.Sprint("SIB", k), Target: "LIB", Fields: []rig.Tok{rig.F(rig.TagEncryptMethod, "0"),
				rig.F(rig.TagHeartBtInt, fmt.Sprint(c.N)), rig.F(rig.TagUsername, "alice"), rig.F(rig.TagPassword, "secret")}}).Bytes())
			sc.Feed((&rig.InMsg{Type: rig.TTestRequest, Seq: "2", Sender: fmt.Sprint("SIB", k), Target: "LIB", Fields: []rig.Tok{rig.F(rig.TagTestReqID, "s")}}).Bytes())
		}
		synctest.Wait()
		t0 := time.Now()
		var wg sync.WaitGroup
		stop := make(chan struct{})
		// senders
		for gi := range c.Senders {
			gi := gi
			wg.Add(1)
			go func() {
				defer wg.Done()
				for j, d := range c.Senders[gi] {
					if d > 0 {
						time.Sleep(time.Duration(d))
					}
					act("send")
					_ = sess.Send(rig.NewApp(fmt.Sprintf("g%d-%d", gi, j)))
				}
			}()
		}
		// the peer
		wg.Add(1)
		go func() {
			defer wg.Done()
			silentUntil := int64(-1)
			for _, op := range c.Peer {
				at := op.At
				if c.SilentFor > 0 && at >= c.SilentAt && at < c.SilentAt+c.SilentFor {
					at = c.SilentAt + c.SilentFor // postponed: the peer is silent now
					silentUntil = at
				}
				if d := time.Until(t0.Add(time.Duration(at))); d > 0 {
					time.Sleep(d)
				}
				act("inbound")
				switch op.Kind {
				case "heartbeat":
					conn.Feed((&rig.InMsg{Type: rig.THeartbeat, Seq: next()}).Bytes())
				case "testreq":
					conn.Feed((&rig.InMsg{Type: rig.TTestRequest, Seq: next(), Fields: []rig.Tok{rig.F(rig.TagTestReqID, "r")}}).Bytes())
				case "resend":
					conn.Feed((&rig.InMsg{Type: rig.TResendRequest, Seq: next(), Fields: []rig.Tok{rig.F(rig.TagBeginSeqNo, "1"), rig.F(rig.TagEndSeqNo, "0")}}).Bytes())
				case "logon":
					conn.Feed(logon())
				case "logout-relogon":
					conn.Feed((&rig.InMsg{Type: rig.TLogout, Seq: next()}).Bytes())
					conn.Feed(logon())
				case "app":
					conn.Feed((&rig.InMsg{Type: "D", Seq: next(), Fields: []rig.Tok{rig.F("11", "x")}}).Bytes())
				case "invalid":
					conn.Feed((&rig.InMsg{Type: rig.THeartbeat, Seq: next(), Damage: "checksum"}).Bytes())
				}
			}
			_ = silentUntil
		}()
		if c.SilentFor > 0 {
			act("timer-expiry")
		}
		// state queries
		if c.PollNs > 0 {
			wg.Add(1)
			go func() {
				defer wg.Done()
				for {
					select {
					case <-stop:
						return
					case <-time.After(time.Duration(c.PollNs)):
						act("query")
						_ = sess.IsLogged()
						// an application that watches the position of the session (the bundled store's counters)
						_, _ = g.st.GetCurrSeqNum(fix.StorageID{Sender: "LIB", Target: "PEER", Side: fix.Incoming})
						_, _ = g.st.GetCurrSeqNum(fix.StorageID{Sender: "LIB", Target: "PEER", Side: fix.Outgoing})
					}
				}
			}()
		}
		// registrations during traffic
		wg.Add(1)
		go func() {
			defer wg.Done()
			for _, r := range c.Regs {
				if d := time.Until(t0.Add(time.Duration(r.At))); d > 0 {
					time.Sleep(d)
				}
				act("registration")
				switch r.Kind {
				case "onchangestate":
					sess.OnChangeState(utils.EventLogon, func() bool { return true })
				case "handleincoming":
					g.h.HandleIncoming(simplefixgo.AllMsgTypes, func([]byte) bool { return true })
				case "handleoutgoing":
					g.h.HandleOutgoing(rig.TMDReject, func(simplefixgo.SendingMessage) bool { return true })
				case "logonrequest":
					act("logon-request")
					_ = sess.LogonRequest()
				}
			}
		}()
		// stop at a drawn instant
		wg.Add(1)
		go func() {
			defer wg.Done()
			if c.StopKind == "none" {
				return
			}
			if d := time.Until(t0.Add(time.Duration(c.StopAt))); d > 0 {
				time.Sleep(d)
			}
			act("stop")
			switch c.StopKind {
			case "session-stop":
				_ = sess.Stop()
			case "handler-stop":
				g.h.Stop()
			case "serve-close":
				if ar != nil {
					ar.A.Close()
				} else {
					ir.I.Close()
				}
			}
		}()
		time.Sleep(time.Duration(c.Horizon))
		close(stop)
		wg.Wait()
		// teardown
		g.h.Stop()
		if ar != nil {
			ar.A.Close()
		} else {
			ir.I.Close()
		}
		conn.PeerClose()
		for _, sc := range siblings {
			sc.PeerClose()
		}
		time.Sleep(rig.Settle(c.N) + time.Second)
	})
	if trouble != "" {
		return []pbt.Violation{pbt.V("harness", "%s", trouble)}
	}
	for _, r := range newRaceReports() {
		pair, lib := racePair(r)
		if !lib {
			return []pbt.Violation{pbt.V("harness:race-in-harness", "the race detector reports a race with no library frame:\n%s", r)}
		}
		if len(r) > 2500 {
			r = r[:2500] + "\n..."
		}
		vs = append(vs, pbt.V("race: "+pair, "unsynchronised concurrent access inside the library:\n%s", r))
	}
	var kinds []string
	for k := range activities {
		kinds = append(kinds, k)
	}
	sort.Strings(kinds)
	rec.Case(evid.FPs(fmt.Sprint(c.Role, c.Buf, c.N, kinds, len(c.Senders), len(c.Peer), c.StopKind)), len(kinds) >= 2)
	rec.Hist("role:" + c.Role)
	rec.Hist("stop:" + c.StopKind)
	if c.LogonCbNs > 0 {
		rec.Hist("slow-logon-callback")
	}
	if c.Siblings > 0 {
		rec.Hist("sibling-connections-sharing-opts")
	}
	if c.SharedStore {
		rec.Hist("sibling-connections-sharing-one-store")
	}
	for _, k := range kinds {
		rec.Hist("activity:" + k)
	}
	if rec.WantSample() {
		rec.Sample(map[string]any{"role": c.Role, "buf": c.Buf, "N": c.N, "senders": len(c.Senders), "peer_ops": len(c.Peer), "silent_for_ns": c.SilentFor, "poll_ns": c.PollNs, "registrations": len(c.Regs), "stop": c.StopKind, "activities": kinds})
	}
	if os.Getenv("VERIF_RACE_COLLECT") != "" { // survey mode: count pairs, never fail
		for _, v := range vs {
			rec.Hist(v.Key)
		}
		return nil
	}
	// one finding per pair
	seen := map[string]bool{}
	var uniq []pbt.Violation
	for _, v := range vs {
		if !seen[v.Key] {
			seen[v.Key] = true
			uniq = append(uniq, v)
		}
	}
	return uniq
}

var outerT *testing.T

func TestC20(t *testing.T) {
	outerT = t
	rec := evid.New("C20")
	pbt.Run(t, "C20", rec, genC20, checkC20)
}
