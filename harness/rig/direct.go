package rig

import (
	"bytes"
	"context"
	"fmt"
	"github.com/b2broker/simplefix-go/fix"
	"github.com/b2broker/simplefix-go/fix/encoding"
	"strconv"
	"strings"
	"sync"
	"sync/atomic"
	"testing"
	"testing/synctest"
	"time"
	"verif/harness/ref"

	simplefixgo "github.com/b2broker/simplefix-go"
	"github.com/b2broker/simplefix-go/session"
	"github.com/b2broker/simplefix-go/session/messages"
	"github.com/b2broker/simplefix-go/storages/memory"
	fixgen "github.com/b2broker/simplefix-go/tests/fix44"
	"github.com/b2broker/simplefix-go/utils"
)

// Cfg configures a session under test.
type Cfg struct {
	Role                 string   `json:"role"` // "acceptor" or "initiator"
	HBMin                int      `json:"hb_min,omitempty"`
	HBMax                int      `json:"hb_max,omitempty"`
	HBInt                int      `json:"hb_int,omitempty"` // initiator: configured interval
	Methods              []string `json:"methods"`          // acceptor: allowed; initiator: Methods[0] is its own
	Approve              string   `json:"approve"`          // "all", "none", or "user:<name>:<password>"
	CloseTimeoutMs       int64    `json:"close_timeout_ms"`
	Buf                  int      `json:"buf"`
	FailSaves            []int    `json:"fail_saves,omitempty"`
	FailNexts            []int    `json:"fail_nexts,omitempty"`             // 1-based indices of the counter store's outgoing GetNextSeqNum calls that fail
	Location             string   `json:"location,omitempty"`               // session option Location (time zone of SendingTime); "" = the default (UTC)
	PartitionStore       bool     `json:"partition_store,omitempty"`        // the stores key everything by the StorageID they are given: messages per (Sender, Target), counters per (Sender, Target, Side)
	Tolerant             bool     `json:"tolerant,omitempty"`               // the application configures its own unmarshaller (SetUnmarshaller): one that does not insist on the CheckSum value
	ObserverReturnsFalse bool     `json:"observer_returns_false,omitempty"` // the application's state-change callbacks (registered after Session.Run) return false
	LogonFailsOnce       bool     `json:"logon_fails_once,omitempty"`       // with CustomLogon: the application's logon request returns an error the first time; Session.Run is then called again
	CustomLogon          bool     `json:"custom_logon,omitempty"`           // initiator (direct rig): the application sets its own logon request with SetLogonRequest
	CallbackHB           int      `json:"callback_hb,omitempty"`            // acceptor (direct rig): the application's logon callback sets the heartbeat interval to this many seconds (0: leaves it)
	LogonCbNs            int64    `json:"logon_cb_ns,omitempty"`            // acceptor (full rig): virtual time the application's logon callback takes
	User                 string   `json:"user,omitempty"`
	Pass                 string   `json:"pass,omitempty"`
	Sender               string   `json:"sender,omitempty"` // initiator's identifiers
	Target               string   `json:"target,omitempty"`
}

// Step is one action of a script.
type Step struct {
	Op    string   `json:"op"`            // "in", "raw", "burst", "send", "logout", "stop", "advance", "handlerstop", "connclosed", "stopwitherror", "stopwithnil", "counter-fails", "counter-reads-fail", "counter-recovers", "wire-hold", "wire-release"
	Raw   []byte   `json:"raw,omitempty"` // "raw": bytes handed to ServeIncoming as they are
	In    *InMsg   `json:"in,omitempty"`
	Burst []*InMsg `json:"burst,omitempty"`
	Dt    int64    `json:"dt,omitempty"` // advance: nanoseconds of virtual time
	ID    string   `json:"id,omitempty"` // send: MDReqID of the application message
	Kind  string   `json:"kind,omitempty"`
}

// Emitted is one outbound message with the virtual instant it left.
type Emitted struct {
	Out
	At time.Duration
}

// StepRes is what was observed during one step (until the library went quiet).
type StepRes struct {
	At        time.Duration
	End       time.Duration
	Out       []Emitted
	Logged    bool
	Events    []string
	CtxDone   bool
	RunEnded  bool
	SendErr   string
	Delivered bool
}

// Trace is the complete observation of a run.
type Trace struct {
	Setup     StepRes
	Steps     []StepRes
	Teardown  StepRes
	Log       *EventLog
	Store     *Store
	CtxDoneAt time.Duration // -1 if never before teardown
	RunErr    string
	RunPanic  string
	Leak      string // synctest's report of goroutines blocked forever
	Trouble   string // harness-side problem (not a verdict)
}

// Opts builds the session options the way tests/opts.go does.
func Opts(methods []string) *session.Opts {
	allowed := map[string]struct{}{}
	for _, m := range methods {
		allowed[m] = struct{}{}
	}
	return &session.Opts{
		MessageBuilders: session.MessageBuilders{
			HeaderBuilder:        fixgen.Header{}.New(),
			TrailerBuilder:       fixgen.Trailer{}.New(),
			LogonBuilder:         fixgen.Logon{}.New(),
			LogoutBuilder:        fixgen.Logout{}.New(),
			RejectBuilder:        fixgen.Reject{}.New(),
			HeartbeatBuilder:     fixgen.Heartbeat{}.New(),
			TestRequestBuilder:   fixgen.TestRequest{}.New(),
			ResendRequestBuilder: fixgen.ResendRequest{}.New(),
			SequenceResetBuilder: fixgen.SequenceReset{}.New(),
		},
		Tags:                    &messages.Tags{MsgType: 35, MsgSeqNum: 34, HeartBtInt: 108, EncryptedMethod: 98},
		AllowedEncryptedMethods: allowed,
		SessionErrorCodes: &messages.SessionErrorCodes{
			InvalidTagNumber: 0, RequiredTagMissing: 1, TagNotDefinedForMessageType: 2, UndefinedTag: 3,
			TagSpecialWithoutValue: 4, IncorrectValue: 5, IncorrectDataFormatValue: 6, DecryptionProblem: 7,
			SignatureProblem: 8, CompIDProblem: 9, Other: 99,
		},
	}
}

// OptsFor is Opts plus the configuration's other session options.
func OptsFor(cfg Cfg) *session.Opts {
	o := Opts(cfg.Methods)
	o.Location = cfg.Location
	return o
}

// Approves is the logon-callback policy.
func Approves(policy, user, pass string) bool {
	switch {
	case policy == "all":
		return true
	case policy == "none":
		return false
	case strings.HasPrefix(policy, "user:"):
		parts := strings.SplitN(policy, ":", 3)
		return len(parts) == 3 && parts[1] == user && parts[2] == pass
	}
	return false
}

// Hooks lets a check observe or perturb a run.
type Hooks struct {
	Inner       *memory.Storage                                                        // shared store (nil: fresh)
	StoreDelay  func(op string, n int) time.Duration                                   // virtual delay inside store calls
	BeforeRun   func(h *simplefixgo.DefaultHandler, log *EventLog)                     // register handlers before Session.Run
	AfterRun    func(h *simplefixgo.DefaultHandler, s *session.Session, log *EventLog) // after Session.Run
	AppMessage  func(step *Step) messages.Message                                      // build the message of a "send" step
	KeepSession func(s *session.Session, h *simplefixgo.DefaultHandler)
	// OnWire makes the peer reactive: it is called (on the goroutine that
	// drains Outgoing) for every message the session puts on the wire and
	// returns messages the peer sends at once in response.
	OnWire func(o Out) []*InMsg
}

// NewApp builds a fresh application message (MarketDataRequestReject, 35=Y).
func NewApp(id string) messages.Message {
	m := fixgen.NewMarketDataRequestReject()
	m.SetMDReqID(id)
	return m
}

// NewForwardedApp is an application message the application did not build itself: it was received
// on another session (numbered 5700+k there, with that session's identifiers and an old sending time),
// parsed with the library's decoder, and is now sent on through this session.
func NewForwardedApp(id string, k int) messages.Message {
	wire := ref.Assemble(ref.StdTags, "FIX.4.4", TMDReject, []ref.Tok{F(TagSenderCompID, "UPSTREAM"), F(TagTargetCompID, "HUB"),
		F(TagMsgSeqNum, strconv.Itoa(5700+k)), F(TagSendingTime, "19991231-23:59:59.000"), F(TagMDReqID, id)})
	m := fixgen.NewMarketDataRequestReject()
	if err := encoding.Unmarshal(m, wire); err != nil {
		panic("harness: cannot parse its own message: " + err.Error())
	}
	return m
}

// tolerantUnmarshaller is an application's own unmarshaller for peers that do not compute
// CheckSums: it puts the right value in and hands the message to the library's default one.
type tolerantUnmarshaller struct{}

func (tolerantUnmarshaller) Unmarshal(msg messages.Builder, d []byte) error {
	mark := []byte("\x0110=")
	if i := bytes.LastIndex(d, mark); i >= 0 {
		fixed := append([]byte{}, d[:i+len(mark)]...)
		fixed = append(fixed, fix.CalcCheckSum(d[:i])...)
		fixed = append(fixed, 1)
		d = fixed
	}
	return encoding.Unmarshal(msg, d)
}

type directRig struct {
	cfg   Cfg
	h     *simplefixgo.DefaultHandler
	s     *session.Session
	log   *EventLog
	store *Store

	mu       sync.Mutex
	out      []Emitted
	events   []string
	runEnded bool
	tr       *Trace
	holdCh   chan bool
}

func (r *directRig) event(name string) {
	r.mu.Lock()
	r.events = append(r.events, name)
	r.mu.Unlock()
	r.log.Add(Event{Kind: "event", Name: name})
}

func (r *directRig) snapshot(since int, evSince int, at time.Duration) StepRes {
	r.mu.Lock()
	defer r.mu.Unlock()
	res := StepRes{At: at, End: r.log.Now()}
	res.Out = append(res.Out, r.out[since:]...)
	res.Events = append(res.Events, r.events[evSince:]...)
	res.RunEnded = r.runEnded
	res.Logged = r.s != nil && r.s.IsLogged()
	if r.s != nil {
		select {
		case <-r.s.Context().Done():
			res.CtxDone = true
		default:
		}
	}
	return res
}

// Settle is the virtual time a run sleeps after teardown so that timer
// goroutines (which notice cancellation at their next expiry) can leave.
func Settle(hb int) time.Duration {
	if hb < 1 {
		hb = 1
	}
	return time.Duration(hb+hb/20+2)*time.Second*2 + 10*time.Second
}

// RunDirect runs a script against handler+session (no transport) in its own
// bubble. maxHB is the largest heartbeat interval any logon of the script can
// negotiate (it determines the settling time).
func RunDirect(t *testing.T, cfg Cfg, steps []Step, hooks *Hooks, maxHB int) (tr *Trace) {
	tr = &Trace{CtxDoneAt: -1}
	defer func() {
		if r := recover(); r != nil {
			msg := fmt.Sprint(r)
			if strings.Contains(msg, "deadlock") || strings.Contains(msg, "blocked goroutines") {
				tr.Leak = msg
				return
			}
			tr.Trouble = "harness panic: " + msg
		}
	}()
	synctest.Test(t, func(t *testing.T) {
		runDirect(cfg, steps, hooks, maxHB, tr)
	})
	return tr
}

func runDirect(cfg Cfg, steps []Step, hooks *Hooks, maxHB int, tr *Trace) {
	if hooks == nil {
		hooks = &Hooks{}
	}
	r := &directRig{cfg: cfg, log: NewEventLog(), tr: tr}
	tr.Log = r.log
	r.store = NewStore(hooks.Inner)
	r.store.Log = r.log
	r.store.Delay = hooks.StoreDelay
	r.store.Partition = cfg.PartitionStore
	for _, k := range cfg.FailSaves {
		r.store.FailSaves[k] = true
	}
	if len(cfg.FailNexts) > 0 {
		r.store.FailNexts = map[int]bool{}
		for _, k := range cfg.FailNexts {
			r.store.FailNexts[k] = true
		}
	}
	tr.Store = r.store

	if cfg.Role == "acceptor" {
		r.h = simplefixgo.NewAcceptorHandler(context.Background(), TagMsgType, cfg.Buf)
	} else {
		r.h = simplefixgo.NewInitiatorHandler(context.Background(), TagMsgType, cfg.Buf)
	}
	r.h.OnConnect(func() bool { r.event("handler:connect"); return true })
	r.h.OnDisconnect(func() bool { r.event("handler:disconnect"); return true })
	r.h.OnStopped(func() bool { r.event("handler:stopped"); return true })

	// drain Outgoing() like a connection would
	var reactive sync.WaitGroup
	stopDrain := make(chan struct{})
	drainDone := make(chan struct{})
	holdCh := make(chan bool, 1) // "wire-hold" / "wire-release": the connection's writer stops / resumes taking messages
	r.holdCh = holdCh
	go func() {
		defer close(drainDone)
		held := false
		for {
			if held {
				select {
				case held = <-holdCh:
				case <-stopDrain:
					return
				}
				continue
			}
			select {
			case held = <-holdCh:
			case b := <-r.h.Outgoing():
				cp := append([]byte(nil), b...)
				r.mu.Lock()
				r.out = append(r.out, Emitted{Out: Decode(cp), At: r.log.Now()})
				r.mu.Unlock()
				r.log.Add(Event{Kind: "wire", Bytes: cp})
				if hooks.OnWire != nil {
					for _, m := range hooks.OnWire(Decode(cp)) {
						b := m.Bytes()
						r.log.Add(Event{Kind: "inject", Bytes: b})
						reactive.Add(1)
						go func() { defer reactive.Done(); r.h.ServeIncoming(b) }()
					}
				}
			case <-stopDrain:
				return
			}
		}
	}()

	if hooks.BeforeRun != nil {
		hooks.BeforeRun(r.h, r.log)
	}

	var err error
	closeTimeout := time.Duration(cfg.CloseTimeoutMs) * time.Millisecond
	if cfg.Role == "acceptor" {
		r.s, err = session.NewAcceptorSession(OptsFor(cfg), r.h,
			&session.LogonSettings{LogonTimeout: 30 * time.Second, CloseTimeout: closeTimeout,
				HeartBtLimits: &session.IntLimits{Min: cfg.HBMin, Max: cfg.HBMax}},
			func(req *session.LogonSettings) error {
				r.log.Add(Event{Kind: "logon-callback", Name: req.Username})
				if Approves(cfg.Approve, req.Username, req.Password) {
					if cfg.CallbackHB > 0 {
						req.HeartBtInt = cfg.CallbackHB // the server's policy overrides what the client asked for
					}
					return nil
				}
				return fmt.Errorf("refused")
			}, r.store, r.store)
	} else {
		r.s, err = session.NewInitiatorSession(r.h, OptsFor(cfg),
			&session.LogonSettings{TargetCompID: cfg.Target, SenderCompID: cfg.Sender, HeartBtInt: cfg.HBInt,
				EncryptMethod: cfg.Methods[0], Username: cfg.User, Password: cfg.Pass, CloseTimeout: closeTimeout,
				LogonTimeout: 30 * time.Second},
			r.store, r.store)
	}
	if err != nil {
		tr.Trouble = "session constructor: " + err.Error()
		close(stopDrain)
		<-drainDone
		return
	}
	if cfg.Tolerant {
		r.s.SetUnmarshaller(tolerantUnmarshaller{})
	}
	if cfg.CustomLogon && cfg.Role == "initiator" {
		// the application supplies its own logon request (the optional SetLogonRequest hook): the same
		// fields as the built-in one plus ResetSeqNumFlag=N
		logonTried := false
		r.s.SetLogonRequest(func(s *session.Session) error {
			msg := fixgen.Logon{}.Build().
				SetFieldEncryptMethod(s.LogonSettings.EncryptMethod).
				SetFieldHeartBtInt(s.LogonSettings.HeartBtInt).
				SetFieldPassword(s.LogonSettings.Password).
				SetFieldUsername(s.LogonSettings.Username).
				SetFieldResetSeqNumFlag(false)
			if cfg.LogonFailsOnce && !logonTried {
				logonTried = true
				return fmt.Errorf("the application's logon request is not ready yet")
			}
			_ = s.Send(msg) // like the built-in request, which reports a failed send to the error callback only
			return nil
		})
	}
	if hooks.KeepSession != nil {
		hooks.KeepSession(r.s, r.h)
	}

	// handler.Run on a harness goroutine, under recover
	runDone := make(chan struct{})
	go func() {
		defer close(runDone)
		defer func() {
			if p := recover(); p != nil {
				tr.RunPanic = fmt.Sprint(p)
			}
			r.mu.Lock()
			r.runEnded = true
			r.mu.Unlock()
		}()
		if e := r.h.Run(); e != nil {
			tr.RunErr = e.Error()
		}
	}()

	outMark, evMark := 0, 0
	mark := func() (int, int) {
		r.mu.Lock()
		defer r.mu.Unlock()
		return len(r.out), len(r.events)
	}

	start := r.log.Now()
	e := r.s.Run()
	if e != nil && cfg.CustomLogon && cfg.LogonFailsOnce && cfg.Role == "initiator" {
		e = r.s.Run() // the application's own logon request failed the first time: it tries again
	}
	if e != nil {
		tr.Trouble = "Session.Run: " + e.Error()
	}
	for _, ev := range []struct {
		e    utils.Event
		name string
	}{{utils.EventLogon, "logon"}, {utils.EventLogout, "logout"}, {utils.EventDisconnect, "disconnect"}, {utils.EventRequest, "request"}} {
		name := ev.name
		r.s.OnChangeState(ev.e, func() bool {
			_ = r.s.IsLogged() // what an application callback typically does first: look at the session
			r.event("session:" + name)
			// an observer that returns false ends the notification of the callbacks registered after it; the
			// session's own callbacks were registered before (in Run) and are not affected
			return !cfg.ObserverReturnsFalse
		})
	}
	// record the instant the session context is cancelled
	ctxWatchDone := make(chan struct{})
	var ctxDoneAt atomic.Int64
	ctxDoneAt.Store(-1)
	go func() {
		defer close(ctxWatchDone)
		<-r.s.Context().Done()
		ctxDoneAt.Store(int64(r.log.Now()))
	}()
	if hooks.AfterRun != nil {
		hooks.AfterRun(r.h, r.s, r.log)
	}
	synctest.Wait()
	tr.Setup = r.snapshot(outMark, evMark, start)

	stopped := false
	for i := range steps {
		st := &steps[i]
		outMark, evMark = mark()
		at := r.log.Now()
		var sendErr string
		delivered := true
		inject := func(m *InMsg) {
			r.mu.Lock()
			ended := r.runEnded
			r.mu.Unlock()
			if ended {
				delivered = false
				return
			}
			b := m.Bytes()
			r.log.Add(Event{Kind: "inject", Bytes: b})
			r.h.ServeIncoming(b)
		}
		switch st.Op {
		case "raw":
			r.mu.Lock()
			ended := r.runEnded
			r.mu.Unlock()
			if ended {
				delivered = false
			} else {
				r.log.Add(Event{Kind: "inject", Bytes: st.Raw})
				r.h.ServeIncoming(append([]byte(nil), st.Raw...))
			}
		case "in":
			inject(st.In)
		case "burst":
			if st.Kind == "async" {
				// the connection's inbound pump runs on a goroutine of its own (as in Acceptor.serve /
				// Initiator.Serve): the step ends with the pump possibly still waiting in ServeIncoming
				burst := st.Burst
				go func() {
					for _, m := range burst {
						inject(m)
					}
				}()
				break
			}
			for _, m := range st.Burst {
				inject(m)
			}
		case "send":
			var msg messages.Message
			if hooks.AppMessage != nil {
				msg = hooks.AppMessage(st)
			} else {
				msg = NewApp(st.ID)
			}
			r.log.Add(Event{Kind: "send-call", Name: st.ID})
			if e := r.s.Send(msg); e != nil {
				sendErr = e.Error()
			}
			r.log.Add(Event{Kind: "send-return", Name: st.ID, Err: sendErr != ""})
		case "logout":
			if !stopped {
				_ = r.s.Logout()
			}
		case "stop":
			if !stopped { // a second Stop registers on a cleaned event pool and panics: outside every property
				stopped = true
				_ = r.s.Stop()
			}
		case "wire-hold":
			// the peer stops reading: handed-over messages stay in the handler's queue (use with a buffer)
			r.holdCh <- true
		case "wire-release":
			r.holdCh <- false
		case "counter-fails":
			// from now on the counter store refuses to record numbers
			r.store.SetFailSets(true)
		case "counter-reads-fail":
			r.store.SetFailGets(true)
		case "counter-recovers":
			r.store.SetFailSets(false)
			r.store.SetFailGets(false)
		case "handlerstop":
			r.h.Stop()
		case "stopwitherror", "stopwithnil":
			// the application ends the handler itself, with an error of its own or with none
			r.mu.Lock()
			ended := r.runEnded
			r.mu.Unlock()
			if !ended {
				if st.Op == "stopwithnil" {
					r.h.StopWithError(nil)
				} else {
					r.h.StopWithError(fmt.Errorf("the application gives up"))
				}
			}
		case "connclosed":
			// what Acceptor.serve / Initiator.Serve do when the connection's reader ends
			r.mu.Lock()
			ended := r.runEnded
			r.mu.Unlock()
			if !ended {
				r.h.StopWithError(simplefixgo.ErrConnClosed)
			}
		case "advance":
			time.Sleep(time.Duration(st.Dt))
		}
		synctest.Wait()
		res := r.snapshot(outMark, evMark, at)
		res.SendErr = sendErr
		res.Delivered = delivered
		tr.Steps = append(tr.Steps, res)
	}

	// teardown, the way Acceptor.serve / Initiator.Serve end a handler
	outMark, evMark = mark()
	at := r.log.Now()
	doneBefore := time.Duration(ctxDoneAt.Load())
	r.h.Stop()
	synctest.Wait()
	<-runDone
	r.h.CloseErrorChan()
	<-ctxWatchDone
	tr.CtxDoneAt = doneBefore
	time.Sleep(Settle(maxHB) + closeTimeout)
	synctest.Wait()
	tr.Teardown = r.snapshot(outMark, evMark, at)
	close(stopDrain)
	<-drainDone
	reactive.Wait()
}
