// Package rig runs the real session/handler/acceptor/initiator inside a
// synctest bubble, driven by a script, and records everything observable.
package rig

import (
	"fmt"
	"strconv"
	"strings"

	"verif/harness/ref"
)

// FIX 4.4 tag numbers used by the session checks (from the FIX
// specification, not from the generated package).
const (
	TagBeginSeqNo      = "7"
	TagEndSeqNo        = "16"
	TagMsgSeqNum       = "34"
	TagMsgType         = "35"
	TagNewSeqNo        = "36"
	TagRefSeqNum       = "45"
	TagSenderCompID    = "49"
	TagSendingTime     = "52"
	TagTargetCompID    = "56"
	TagText            = "58"
	TagEncryptMethod   = "98"
	TagHeartBtInt      = "108"
	TagTestReqID       = "112"
	TagGapFillFlag     = "123"
	TagResetSeqNumFlag = "141"
	TagMDReqID         = "262"
	TagRefTagID        = "371"
	TagRefMsgType      = "372"
	TagRejectReason    = "373"
	TagUsername        = "553"
	TagPassword        = "554"
)

const (
	TLogon         = "A"
	TLogout        = "5"
	THeartbeat     = "0"
	TTestRequest   = "1"
	TResendRequest = "2"
	TReject        = "3"
	TSequenceReset = "4"
	TMDRequest     = "V"
	TMDReject      = "Y"
)

// InMsg is an inbound message assembled by REF (never by the library).
type InMsg struct {
	Type     string    `json:"type"`
	Seq      string    `json:"seq"`              // MsgSeqNum text
	NoSeq    bool      `json:"no_seq,omitempty"` // leave MsgSeqNum out
	Sender   string    `json:"sender,omitempty"`
	Target   string    `json:"target,omitempty"`
	PreSeq   []ref.Tok `json:"pre_seq,omitempty"` // header fields placed before MsgSeqNum (decoys)
	Fields   []ref.Tok `json:"fields,omitempty"`  // body fields
	PadLen   int       `json:"pad_len,omitempty"` // BodyLength written with this many leading zeros (the same number, another legal spelling)
	Damage   string    `json:"damage,omitempty"`  // "", "checksum", "checksum-spelling", "bodylength", "bodylength-extreme", "leading-field", "trailing-field", "truncate", "no-msgtype"
	DamageBy int       `json:"damage_by,omitempty"`
	Sloppy   bool      `json:"sloppy,omitempty"` // the peer does not compute CheckSums: it writes 000 (fine for a session whose configured unmarshaller tolerates that)
	Note     string    `json:"note,omitempty"`
}

func F(tag, val string) ref.Tok { return ref.Tok{Tag: tag, Val: val, HasEq: true} }

// Bytes assembles the message.
func (m *InMsg) Bytes() []byte {
	sender, target := m.Sender, m.Target
	if sender == "" {
		sender = "PEER"
	}
	if target == "" {
		target = "LIB"
	}
	var toks []ref.Tok
	toks = append(toks, F(TagSenderCompID, sender), F(TagTargetCompID, target))
	toks = append(toks, m.PreSeq...)
	if !m.NoSeq {
		toks = append(toks, F(TagMsgSeqNum, m.Seq))
	}
	toks = append(toks, F(TagSendingTime, "20000101-00:00:00.000"))
	toks = append(toks, m.Fields...)
	msgType := m.Type
	if m.Damage == "no-msgtype" {
		msgType = ""
	}
	b := ref.Assemble(ref.StdTags, "FIX.4.4", msgType, toks)
	if m.PadLen > 0 {
		ts, _ := ref.Tokenize(b)
		b = relength(b, ts[1].Val, strings.Repeat("0", m.PadLen)+ts[1].Val)
	}
	switch m.Damage {
	case "checksum-spelling":
		// the right number, not written as three digits
		n := len(b)
		cs, _ := strconv.Atoi(string(b[n-4 : n-1]))
		txt := strconv.Itoa(cs)
		if len(txt) == 3 {
			txt = "0" + txt
		}
		b = append(append([]byte(nil), b[:n-4]...), []byte(txt+"\x01")...)
	case "bodylength-extreme":
		ts, _ := ref.Tokenize(b)
		ext := []string{"0", "99999", "-30", "2147483648", "99999999999999999999", "-9223372036854775808", "1"}
		b = relength(b, ts[1].Val, ext[m.DamageBy%len(ext)])
	case "leading-field", "trailing-field":
		// a stray field in front of BeginString (the CheckSum covers it, BodyLength is not concerned),
		// or behind the CheckSum field: everything else is right
		stray := []string{"58=oops\x01", "1=x\x01", "9=5\x01", "35=0\x01"}[m.DamageBy%4]
		if m.Damage == "trailing-field" {
			b = append(b, []byte(stray)...)
			break
		}
		if m.DamageBy%8 >= 4 {
			// ... and a BodyLength that counts the stray bytes too (what a length taken as "everything
			// but the three framing fields" would come to)
			ts, _ := ref.Tokenize(b)
			n, _ := strconv.Atoi(ts[1].Val)
			b = relength(b, ts[1].Val, strconv.Itoa(n+len(stray)))
		}
		body := append([]byte(stray), b[:len(b)-7]...)
		sum := 0
		for _, c := range body {
			sum += int(c)
		}
		b = append(body, []byte(fmt.Sprintf("10=%03d\x01", sum%256))...)
	case "checksum":
		n := len(b)
		cs, _ := strconv.Atoi(string(b[n-4 : n-1]))
		by := m.DamageBy%255 + 1
		copy(b[n-4:n-1], fmt.Sprintf("%03d", (cs+by)%256))
	case "bodylength":
		toks, _ := ref.Tokenize(b)
		n, _ := strconv.Atoi(toks[1].Val)
		by := m.DamageBy%50 + 1
		nb := []byte("8=FIX.4.4\x019=" + strconv.Itoa(n+by) + "\x01")
		rest := b[len("8=FIX.4.4\x019=")+len(toks[1].Val)+1:]
		// keep the checksum consistent with the new digits so that only the
		// length is wrong
		body := append(nb, rest[:len(rest)-7]...)
		sum := 0
		for _, c := range body {
			sum += int(c)
		}
		b = append(body, []byte(fmt.Sprintf("10=%03d\x01", sum%256))...)
	case "truncate":
		cut := m.DamageBy%(len(b)-12) + 1
		// keep MsgType readable and the message terminated by a CheckSum-looking
		// field so that the transport would still deliver it
		b = append(append([]byte(nil), b[:len(b)-7-cut]...), b[len(b)-7:]...)
		if b[len(b)-8] != ref.SOH {
			b = append(append([]byte(nil), b[:len(b)-7]...), append([]byte{ref.SOH}, b[len(b)-7:]...)...)
		}
	}
	if m.Sloppy && m.Damage == "" {
		copy(b[len(b)-4:len(b)-1], "000")
	}
	return b
}

// relength replaces the BodyLength text of a framed message and recomputes the
// CheckSum, so that only what the BodyLength field says has changed.
func relength(b []byte, oldText, newText string) []byte {
	prefix := "8=FIX.4.4\x019="
	rest := b[len(prefix)+len(oldText)+1:]
	body := append([]byte(prefix+newText+"\x01"), rest[:len(rest)-7]...)
	sum := 0
	for _, c := range body {
		sum += int(c)
	}
	return append(body, []byte(fmt.Sprintf("10=%03d\x01", sum%256))...)
}

// Out is a decoded outbound message.
type Out struct {
	Raw  []byte
	Type string
	Seq  string
	Toks []ref.Tok
}

func Decode(b []byte) Out {
	o := Out{Raw: b}
	o.Toks, _ = ref.Tokenize(b)
	o.Type, _ = ref.Lookup(b, TagMsgType)
	o.Seq, _ = ref.Lookup(b, TagMsgSeqNum)
	return o
}

func (o Out) Get(tag string) (string, bool) { return ref.Lookup(o.Raw, tag) }

func (o Out) String() string { return ref.Show(o.Raw) }
