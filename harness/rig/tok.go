package rig

import "verif/harness/ref"

type Tok = ref.Tok
