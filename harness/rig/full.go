package rig

import (
	"context"
	"fmt"
	"runtime"
	"strings"
	"testing"
	"testing/synctest"
	"time"

	simplefixgo "github.com/b2broker/simplefix-go"
	"github.com/b2broker/simplefix-go/session"
	"github.com/b2broker/simplefix-go/storages/memory"

	"verif/harness/netsim"
)

// Bubble runs f in a synctest bubble and reports what synctest says about
// goroutines that are still blocked when f has returned ("" if none).
func Bubble(t *testing.T, f func()) (leak string, trouble string) {
	defer func() {
		if r := recover(); r != nil {
			msg := fmt.Sprint(r)
			if strings.Contains(msg, "deadlock") || strings.Contains(msg, "blocked goroutines") {
				leak = msg
				return
			}
			trouble = "panic in bubble: " + msg
		}
	}()
	synctest.Test(t, func(t *testing.T) { f() })
	return
}

// BubbleIsolated is Bubble run inside a subtest: when the testing package
// itself fails the bubble's test (it does so when the race detector reported
// something during it) only the subtest is aborted and the caller goes on.
func BubbleIsolated(t *testing.T, f func()) (leak string, trouble string) {
	t.Run("bubble", func(st *testing.T) {
		leak, trouble = Bubble(st, f)
	})
	return
}

// AcceptorRig is a real Acceptor over a scripted listener.
type AcceptorRig struct {
	L    *netsim.Listener
	A    *simplefixgo.Acceptor
	Done chan struct{}
	Err  error
}

// StartAcceptor starts ListenAndServe on a harness goroutine.
func StartAcceptor(buf int, writeTimeout time.Duration, onClient func(h simplefixgo.AcceptorHandler)) *AcceptorRig {
	r := &AcceptorRig{L: netsim.NewListener(), Done: make(chan struct{})}
	r.A = simplefixgo.NewAcceptor(r.L, simplefixgo.NewAcceptorHandlerFactory(TagMsgType, buf), writeTimeout, onClient)
	go func() {
		defer close(r.Done)
		r.Err = r.A.ListenAndServe()
	}()
	return r
}

// setupFactory is an application's own HandlerFactory: it makes the library's acceptor handler and
// sets it up (subscribers, session) itself, so that the acceptor needs no new-client callback.
type setupFactory struct {
	inner simplefixgo.HandlerFactory
	setup func(h simplefixgo.AcceptorHandler)
}

func (f setupFactory) MakeHandler(ctx context.Context) simplefixgo.AcceptorHandler {
	h := f.inner.MakeHandler(ctx)
	f.setup(h)
	return h
}

// StartAcceptorNoCallback is StartAcceptor for an application that passes NO new-client callback
// (nil) and does its per-connection set-up in its own handler factory instead.
func StartAcceptorNoCallback(buf int, writeTimeout time.Duration, setup func(h simplefixgo.AcceptorHandler)) *AcceptorRig {
	r := &AcceptorRig{L: netsim.NewListener(), Done: make(chan struct{})}
	r.A = simplefixgo.NewAcceptor(r.L, setupFactory{simplefixgo.NewAcceptorHandlerFactory(TagMsgType, buf), setup}, writeTimeout, nil)
	go func() {
		defer close(r.Done)
		r.Err = r.A.ListenAndServe()
	}()
	return r
}

// Returned reports whether ListenAndServe has returned.
func (r *AcceptorRig) Returned() bool {
	select {
	case <-r.Done:
		return true
	default:
		return false
	}
}

// InitiatorRig is a real Initiator over a scripted connection.
type InitiatorRig struct {
	Cancel context.CancelFunc // cancels the context the handler was made from
	C      *netsim.Conn
	H      *simplefixgo.DefaultHandler
	I      *simplefixgo.Initiator
	Done   chan struct{}
	Err    error
}

func NewInitiatorRig(buf int, writeDeadline time.Duration) *InitiatorRig {
	r := &InitiatorRig{C: netsim.NewConn("init"), Done: make(chan struct{})}
	// the application's own cancellable context: cancelling it is one way to end the client
	ctx, cancel := context.WithCancel(context.Background())
	r.Cancel = cancel
	r.H = simplefixgo.NewInitiatorHandler(ctx, TagMsgType, buf)
	r.I = simplefixgo.NewInitiator(r.C, r.H, buf, writeDeadline)
	return r
}

// Serve starts Initiator.Serve on a harness goroutine.
func (r *InitiatorRig) Serve() {
	go func() {
		defer close(r.Done)
		r.Err = r.I.Serve()
	}()
}

func (r *InitiatorRig) Returned() bool {
	select {
	case <-r.Done:
		return true
	default:
		return false
	}
}

// AcceptorSession builds the accepting session for a new client the way
// tests/acceptor.go does.
func AcceptorSession(cfg Cfg, h simplefixgo.AcceptorHandler, cs session.CounterStorage, ms session.MessageStorage) (*session.Session, error) {
	return AcceptorSessionOpts(OptsFor(cfg), cfg, h, cs, ms)
}

// AcceptorSessionOpts is AcceptorSession with the options object supplied by the
// caller: an acceptor application builds one session.Opts and uses it for the
// session of every connection.
func AcceptorSessionOpts(opts *session.Opts, cfg Cfg, h simplefixgo.AcceptorHandler, cs session.CounterStorage, ms session.MessageStorage) (*session.Session, error) {
	return AcceptorSessionShared(opts, AcceptorSettings(cfg), cfg, h, cs, ms)
}

// AcceptorSettings are the settings an acceptor application passes to NewAcceptorSession.
func AcceptorSettings(cfg Cfg) *session.LogonSettings {
	return &session.LogonSettings{LogonTimeout: 30 * time.Second, CloseTimeout: time.Duration(cfg.CloseTimeoutMs) * time.Millisecond,
		HeartBtLimits: &session.IntLimits{Min: cfg.HBMin, Max: cfg.HBMax}}
}

// AcceptorSessionShared takes both the options and the settings object from the
// caller, who may hand the same ones to the session of every connection.
func AcceptorSessionShared(opts *session.Opts, settings *session.LogonSettings, cfg Cfg, h simplefixgo.AcceptorHandler, cs session.CounterStorage, ms session.MessageStorage) (*session.Session, error) {
	s, err := session.NewAcceptorSession(opts, h, settings,
		func(req *session.LogonSettings) error {
			if cfg.LogonCbNs > 0 {
				time.Sleep(time.Duration(cfg.LogonCbNs)) // the application's credential check takes time
			}
			if Approves(cfg.Approve, req.Username, req.Password) {
				return nil
			}
			return fmt.Errorf("refused")
		}, cs, ms)
	if err != nil {
		return nil, err
	}
	return s, s.Run()
}

// InitiatorSession builds the initiating session the way tests/initiator.go does.
func InitiatorSession(cfg Cfg, h *simplefixgo.DefaultHandler, cs session.CounterStorage, ms session.MessageStorage) (*session.Session, error) {
	closeTimeout := time.Duration(cfg.CloseTimeoutMs) * time.Millisecond
	s, err := session.NewInitiatorSession(h, OptsFor(cfg),
		&session.LogonSettings{TargetCompID: cfg.Target, SenderCompID: cfg.Sender, HeartBtInt: cfg.HBInt,
			EncryptMethod: cfg.Methods[0], Username: cfg.User, Password: cfg.Pass, CloseTimeout: closeTimeout,
			LogonTimeout: 30 * time.Second},
		cs, ms)
	if err != nil {
		return nil, err
	}
	return s, s.Run()
}

var _ = memory.NewStorage

// Stacks returns a condensed dump of the goroutines of the calling bubble that
// have a library frame: one line per goroutine with its state and the library
// functions on its stack.
func Stacks() string {
	self := make([]byte, 256)
	self = self[:runtime.Stack(self, false)]
	bubble := ""
	if i := strings.Index(string(self), "synctest bubble "); i >= 0 {
		rest := string(self)[i:]
		if j := strings.IndexAny(rest, "]:,"); j > 0 {
			bubble = rest[:j] + "]"
		}
	}
	buf := make([]byte, 4<<20)
	buf = buf[:runtime.Stack(buf, true)]
	var out []string
	for _, g := range strings.Split(string(buf), "\n\n") {
		if bubble == "" || !strings.Contains(g, bubble) || !strings.Contains(g, "github.com/b2broker/simplefix-go") {
			continue
		}
		lines := strings.Split(g, "\n")
		head := lines[0]
		var fns []string
		for _, l := range lines[1:] {
			if strings.HasPrefix(l, "github.com/b2broker/simplefix-go") {
				fn := strings.TrimPrefix(l, "github.com/b2broker/simplefix-go")
				if k := strings.LastIndex(fn, "("); k > 0 {
					fn = fn[:k]
				}
				fns = append(fns, fn)
			}
		}
		out = append(out, head+" "+strings.Join(fns, " < "))
	}
	return strings.Join(out, "\n")
}
