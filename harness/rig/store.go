package rig

import (
	"errors"
	"fmt"
	"runtime"
	"sync"
	"time"

	simplefixgo "github.com/b2broker/simplefix-go"
	"github.com/b2broker/simplefix-go/fix"
	"github.com/b2broker/simplefix-go/storages/memory"
)

// StoreCall is one recorded call of the injected store.
type StoreCall struct {
	Op    string
	Seq   int
	Side  string
	Err   bool
	Bytes []byte // Save: the message's bytes at the time of the call
	Order int
	// the Sender / Target of the StorageID the session passed
	IDSender, IDTarget string
}

// Store wraps the bundled memory.Storage: it records calls, can fail the
// k-th Save and can sleep a virtual duration inside each call.
type Store struct {
	Inner *memory.Storage

	mu        sync.Mutex
	calls     []StoreCall
	saves     int
	FailSaves map[int]bool                         // 1-based index of Save calls that fail
	Delay     func(op string, n int) time.Duration // virtual sleep inside the call (never with concurrent callers: a goroutine queued on a mutex is not durably blocked, so virtual time would stop)
	Yield     func(op string, n int) int           // number of runtime.Gosched() calls inside the call (schedule perturbation that is safe under locks)
	Log       *EventLog
	nCalls    int
	// Partition: keep the messages per (Sender, Target) of the StorageID, as a store
	// serving several sessions has to; the bundled memory.Storage ignores the ID.
	FailNexts map[int]bool // 1-based index of outgoing GetNextSeqNum calls that fail (no number is handed out)
	nexts     int
	FailSets  bool // every SetSeqNum call fails from now on (a counter store that has gone away)
	FailGets  bool // every GetCurrSeqNum call fails
	Partition bool
	counters  map[string]*int // with Partition: one counter per (Sender, Target, Side) of the StorageID
	parts     map[string]map[int]simplefixgo.SendingMessage
}

func NewStore(inner *memory.Storage) *Store {
	if inner == nil {
		inner = memory.NewStorage()
	}
	return &Store{Inner: inner, FailSaves: map[int]bool{}}
}

var ErrInjected = errors.New("injected store failure")

func (s *Store) delay(op string) {
	if s.Delay == nil && s.Yield == nil {
		return
	}
	s.mu.Lock()
	s.nCalls++
	n := s.nCalls
	s.mu.Unlock()
	if s.Yield != nil {
		for k := s.Yield(op, n); k > 0; k-- {
			runtime.Gosched()
		}
	}
	if s.Delay != nil {
		if d := s.Delay(op, n); d > 0 {
			time.Sleep(d)
		}
	}
}

func (s *Store) rec(c StoreCall) {
	s.mu.Lock()
	c.Order = len(s.calls)
	s.calls = append(s.calls, c)
	s.mu.Unlock()
	if s.Log != nil {
		name := ""
		if c.Op == "save" {
			name = c.IDSender + "|" + c.IDTarget // the identity (StorageID) the session saved it under
		}
		s.Log.Add(Event{Kind: "store:" + c.Op, Name: name, Seq: c.Seq, Err: c.Err, Bytes: c.Bytes})
	}
}

func (s *Store) SetFailSets(on bool) {
	s.mu.Lock()
	s.FailSets = on
	s.mu.Unlock()
}

func (s *Store) Calls() []StoreCall {
	s.mu.Lock()
	defer s.mu.Unlock()
	return append([]StoreCall(nil), s.calls...)
}

// counter returns the partitioned counter cell of an identity and side.
func (s *Store) counter(id fix.StorageID) *int {
	if s.counters == nil {
		s.counters = map[string]*int{}
	}
	key := id.Sender + "\x00" + id.Target + "\x00" + string(id.Side)
	if s.counters[key] == nil {
		s.counters[key] = new(int)
	}
	return s.counters[key]
}

func (s *Store) GetNextSeqNum(id fix.StorageID) (int, error) {
	s.delay("next")
	if id.Side == fix.Outgoing && len(s.FailNexts) > 0 {
		s.mu.Lock()
		s.nexts++
		fail := s.FailNexts[s.nexts]
		s.mu.Unlock()
		if fail {
			s.rec(StoreCall{Op: "next", Side: string(id.Side), Err: true})
			return 0, ErrInjected
		}
	}
	if s.Partition {
		s.mu.Lock()
		c := s.counter(id)
		*c++
		n := *c
		s.mu.Unlock()
		s.rec(StoreCall{Op: "next", Seq: n, Side: string(id.Side)})
		return n, nil
	}
	n, err := s.Inner.GetNextSeqNum(id)
	s.rec(StoreCall{Op: "next", Seq: n, Side: string(id.Side), Err: err != nil})
	return n, err
}

func (s *Store) GetCurrSeqNum(id fix.StorageID) (int, error) {
	s.mu.Lock()
	failing := s.FailGets
	s.mu.Unlock()
	if failing {
		return 0, ErrInjected
	}
	if s.Partition {
		s.mu.Lock()
		defer s.mu.Unlock()
		return *s.counter(id), nil
	}
	n, err := s.Inner.GetCurrSeqNum(id)
	return n, err
}

// SetFailGets: from now on (or no longer) reading the current number fails.
func (s *Store) SetFailGets(on bool) {
	s.mu.Lock()
	s.FailGets = on
	s.mu.Unlock()
}

func (s *Store) ResetSeqNum(id fix.StorageID) error {
	if s.Partition {
		s.mu.Lock()
		*s.counter(id) = 0
		s.mu.Unlock()
		return nil
	}
	return s.Inner.ResetSeqNum(id)
}

func (s *Store) SetSeqNum(id fix.StorageID, n int) error {
	s.mu.Lock()
	failing := s.FailSets
	s.mu.Unlock()
	if failing {
		s.rec(StoreCall{Op: "set", Seq: n, Side: string(id.Side), Err: true})
		return ErrInjected
	}
	if s.Partition {
		s.mu.Lock()
		*s.counter(id) = n
		s.mu.Unlock()
		s.rec(StoreCall{Op: "set", Seq: n, Side: string(id.Side)})
		return nil
	}
	err := s.Inner.SetSeqNum(id, n)
	s.rec(StoreCall{Op: "set", Seq: n, Side: string(id.Side), Err: err != nil})
	return err
}

func (s *Store) Save(id fix.StorageID, msg simplefixgo.SendingMessage, seq int) error {
	s.delay("save")
	s.mu.Lock()
	s.saves++
	fail := s.FailSaves[s.saves]
	s.mu.Unlock()
	var b []byte
	if bb, err := msg.ToBytes(); err == nil {
		b = append([]byte(nil), bb...)
	}
	if fail {
		s.rec(StoreCall{Op: "save", Seq: seq, Side: string(id.Side), Err: true, Bytes: b, IDSender: id.Sender, IDTarget: id.Target})
		return ErrInjected
	}
	var err error
	if s.Partition {
		s.mu.Lock()
		if s.parts == nil {
			s.parts = map[string]map[int]simplefixgo.SendingMessage{}
		}
		key := id.Sender + "\x00" + id.Target
		if s.parts[key] == nil {
			s.parts[key] = map[int]simplefixgo.SendingMessage{}
		}
		s.parts[key][seq] = msg
		s.mu.Unlock()
	} else {
		err = s.Inner.Save(id, msg, seq)
	}
	s.rec(StoreCall{Op: "save", Seq: seq, Side: string(id.Side), Err: err != nil, Bytes: b, IDSender: id.Sender, IDTarget: id.Target})
	return err
}

func (s *Store) Messages(id fix.StorageID, from, to int) ([]simplefixgo.SendingMessage, error) {
	var ms []simplefixgo.SendingMessage
	var err error
	if s.Partition {
		// the same rules as memory.Storage.Messages, on this identity's messages only
		s.mu.Lock()
		last := *s.counter(fix.StorageID{Sender: id.Sender, Target: id.Target, Side: fix.Outgoing})
		part := s.parts[id.Sender+"\x00"+id.Target]
		switch {
		case from > to:
			err = simplefixgo.ErrInvalidBoundaries
		case to > last:
			err = simplefixgo.ErrNotEnoughMessages
		default:
			for i := from; i <= to; i++ {
				m, ok := part[i]
				if !ok {
					ms, err = nil, simplefixgo.ErrNotEnoughMessages
					break
				}
				ms = append(ms, m)
			}
		}
		s.mu.Unlock()
	} else {
		ms, err = s.Inner.Messages(id, from, to)
	}
	s.rec(StoreCall{Op: fmt.Sprintf("messages(%d,%d)", from, to), Side: string(id.Side), Err: err != nil})
	return ms, err
}

// Event is an entry of the global event log of a run.
type Event struct {
	T     time.Duration // virtual time since the start of the bubble
	Kind  string
	Name  string
	Seq   int
	Err   bool
	Bytes []byte
	Order int
}

// EventLog is a goroutine-safe, globally ordered log.
type EventLog struct {
	mu    sync.Mutex
	t0    time.Time
	items []Event
}

func NewEventLog() *EventLog { return &EventLog{t0: time.Now()} }

func (l *EventLog) Add(e Event) {
	l.mu.Lock()
	e.T = time.Since(l.t0)
	e.Order = len(l.items)
	l.items = append(l.items, e)
	l.mu.Unlock()
}

func (l *EventLog) Len() int {
	l.mu.Lock()
	defer l.mu.Unlock()
	return len(l.items)
}

func (l *EventLog) Since(i int) []Event {
	l.mu.Lock()
	defer l.mu.Unlock()
	return append([]Event(nil), l.items[i:]...)
}

func (l *EventLog) Now() time.Duration { return time.Since(l.t0) }
