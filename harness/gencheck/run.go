package gencheck

import (
	"bytes"
	"fmt"
	"os"
	"os/exec"
	"path/filepath"
	"strings"
	"sync"
	"time"

	"verif/harness/schema"
)

const goBin = "go1.26.8"

func goEnv() []string {
	env := os.Environ()
	env = append(env, "GOFLAGS=-mod=mod", "GOPROXY=off", "GOSUMDB=off", "GOTOOLCHAIN=local")
	return env
}

var (
	fixgenOnce sync.Once
	fixgenPath string
	fixgenErr  error
)

// scratchRoot is where generated packages are written (removed after use).
func scratchRoot() string {
	if d := os.Getenv("VERIF_OUT"); d != "" {
		return filepath.Join(d, "gencheck")
	}
	return filepath.Join(os.TempDir(), "verif-gencheck")
}

// Fixgen builds cmd/fixgen from /repo's working tree once per process.
func Fixgen() (string, error) {
	fixgenOnce.Do(func() {
		dir := filepath.Join(scratchRoot(), fmt.Sprintf("bin-%d", os.Getpid()))
		if err := os.MkdirAll(dir, 0o755); err != nil {
			fixgenErr = err
			return
		}
		fixgenPath = filepath.Join(dir, "fixgen")
		cmd := exec.Command(goBin, "build", "-o", fixgenPath, "./cmd/fixgen")
		cmd.Dir = schema.RepoDir()
		env := os.Environ()
		env = append(env, "GOFLAGS=-mod=readonly", "GOPROXY=off", "GOSUMDB=off", "GOTOOLCHAIN=local")
		cmd.Env = env
		if out, err := cmd.CombinedOutput(); err != nil {
			fixgenErr = fmt.Errorf("cannot build cmd/fixgen: %v\n%s", err, out)
		}
	})
	return fixgenPath, fixgenErr
}

// Work is a scratch module in which emitted packages are compiled.
type Work struct {
	Dir string
}

func NewWork(tag string) (*Work, error) {
	dir := filepath.Join(scratchRoot(), fmt.Sprintf("w-%d-%s-%d", os.Getpid(), tag, time.Now().UnixNano()))
	if err := os.MkdirAll(dir, 0o755); err != nil {
		return nil, err
	}
	gomod := "module scratch\n\ngo 1.18\n\nrequire github.com/b2broker/simplefix-go v0.0.0\n\nreplace github.com/b2broker/simplefix-go => " + schema.RepoDir() + "\n"
	if err := os.WriteFile(filepath.Join(dir, "go.mod"), []byte(gomod), 0o644); err != nil {
		return nil, err
	}
	sum, _ := os.ReadFile(schema.RepoDir() + "/go.sum")
	_ = os.WriteFile(filepath.Join(dir, "go.sum"), sum, 0o644)
	return &Work{Dir: dir}, nil
}

func (w *Work) Remove() { _ = os.RemoveAll(w.Dir) }

// Generate writes the schema and type map and runs fixgen with -o out (relative
// to the work dir unless absolute). It returns the combined output and whether
// the generator reported failure (non-zero exit, which is how it rejects).
func (w *Work) Generate(s *schema.Schema, tm *schema.TypeMap, out string) (output string, failed bool, err error) {
	bin, err := Fixgen()
	if err != nil {
		return "", false, err
	}
	sp, tp := filepath.Join(w.Dir, "schema.xml"), filepath.Join(w.Dir, "types.xml")
	if err := os.WriteFile(sp, s.XML(), 0o644); err != nil {
		return "", false, err
	}
	if err := os.WriteFile(tp, tm.XML(), 0o644); err != nil {
		return "", false, err
	}
	cmd := exec.Command(bin, "-o", out, "-s", sp, "-t", tp)
	cmd.Dir = w.Dir
	b, runErr := cmd.CombinedOutput()
	return string(b), runErr != nil, nil
}

// Abs resolves an output directory the way fixgen's working directory does.
func (w *Work) Abs(out string) string {
	if filepath.IsAbs(out) {
		return out
	}
	return filepath.Join(w.Dir, out)
}

// Test compiles the package in dir (under the work module) together with any
// _test.go file placed there and runs its tests.
func (w *Work) Test(dir string) (string, error) {
	rel, err := filepath.Rel(w.Dir, dir)
	if err != nil {
		return "", err
	}
	cmd := exec.Command(goBin, "test", "-count=1", "./"+rel+"/")
	cmd.Dir = w.Dir
	cmd.Env = goEnv()
	var buf bytes.Buffer
	cmd.Stdout, cmd.Stderr = &buf, &buf
	err = cmd.Run()
	return buf.String(), err
}

// Build only compiles the package.
func (w *Work) Build(dir string) (string, error) {
	rel, err := filepath.Rel(w.Dir, dir)
	if err != nil {
		return "", err
	}
	cmd := exec.Command(goBin, "build", "./"+rel+"/")
	cmd.Dir = w.Dir
	cmd.Env = goEnv()
	var buf bytes.Buffer
	cmd.Stdout, cmd.Stderr = &buf, &buf
	err = cmd.Run()
	return buf.String(), err
}

// FileSet reads every .go file of a directory (name -> content), skipping tests.
func FileSet(dir string) (map[string]string, error) {
	out := map[string]string{}
	ents, err := os.ReadDir(dir)
	if err != nil {
		return nil, err
	}
	for _, e := range ents {
		if strings.HasSuffix(e.Name(), ".go") && !strings.HasSuffix(e.Name(), "_test.go") {
			b, err := os.ReadFile(filepath.Join(dir, e.Name()))
			if err != nil {
				return nil, err
			}
			out[e.Name()] = string(b)
		}
	}
	return out, nil
}

func tailLines(s string, n int) string {
	lines := strings.Split(strings.TrimSpace(s), "\n")
	if len(lines) > n {
		lines = lines[:n]
	}
	return strings.Join(lines, "\n")
}
