package gencheck

import (
	"fmt"
	"go/ast"
	"go/parser"
	"go/printer"
	"go/token"
	"os"
	"path/filepath"
	"sort"
	"strconv"
	"strings"
)

// Emitted is what go/parser finds in an emitted package.
type Emitted struct {
	Dir    string
	Files  []string
	Pkg    map[string]string        // file -> package clause
	Consts map[string]string        // const name -> string value
	Funcs  map[string]*ast.FuncDecl // "Name" or "Recv.Name"
	FileOf map[string]string
	Fset   *token.FileSet
}

func ParseEmitted(dir string) (*Emitted, error) {
	em := &Emitted{Dir: dir, Pkg: map[string]string{}, Consts: map[string]string{}, Funcs: map[string]*ast.FuncDecl{}, FileOf: map[string]string{}, Fset: token.NewFileSet()}
	ents, err := os.ReadDir(dir)
	if err != nil {
		return nil, err
	}
	for _, ent := range ents {
		name := ent.Name()
		if !strings.HasSuffix(name, ".go") || strings.HasSuffix(name, "_test.go") {
			continue
		}
		em.Files = append(em.Files, name)
		f, err := parser.ParseFile(em.Fset, filepath.Join(dir, name), nil, parser.ParseComments)
		if err != nil {
			return nil, fmt.Errorf("%s does not parse: %v", name, err)
		}
		em.Pkg[name] = f.Name.Name
		for _, d := range f.Decls {
			switch d := d.(type) {
			case *ast.GenDecl:
				if d.Tok != token.CONST && d.Tok != token.VAR {
					continue
				}
				for _, sp := range d.Specs {
					vs := sp.(*ast.ValueSpec)
					for i, n := range vs.Names {
						if i < len(vs.Values) {
							if lit, ok := vs.Values[i].(*ast.BasicLit); ok && lit.Kind == token.STRING {
								v, _ := strconv.Unquote(lit.Value)
								em.Consts[n.Name] = v
								em.FileOf[n.Name] = name
							}
						}
					}
				}
			case *ast.FuncDecl:
				key := d.Name.Name
				if d.Recv != nil && len(d.Recv.List) == 1 {
					key = typeString(em.Fset, d.Recv.List[0].Type) + "." + key
					key = strings.TrimPrefix(key, "*")
				}
				em.Funcs[key] = d
				em.FileOf[key] = name
			}
		}
	}
	sort.Strings(em.Files)
	return em, nil
}

func typeString(fset *token.FileSet, e ast.Node) string {
	var b strings.Builder
	_ = printer.Fprint(&b, fset, e)
	return b.String()
}

// Item is one element of a make<X>() item list.
type Item struct {
	Kind  string // field | component | group
	Const string // Field<Name> (fields)
	FixT  string // fields: String, Int, ...
	Type  string // component / group type name
}

func (i Item) String() string {
	if i.Kind == "field" {
		return "field(" + i.Const + "," + i.FixT + ")"
	}
	return i.Kind + "(" + i.Type + ")"
}

func parseItem(fset *token.FileSet, e ast.Expr) Item {
	switch x := e.(type) {
	case *ast.CallExpr: // fix.NewKeyValue(FieldX, &fix.T{})
		if sel, ok := x.Fun.(*ast.SelectorExpr); ok && sel.Sel.Name == "NewKeyValue" && len(x.Args) == 2 {
			it := Item{Kind: "field"}
			if id, ok := x.Args[0].(*ast.Ident); ok {
				it.Const = id.Name
			}
			if u, ok := x.Args[1].(*ast.UnaryExpr); ok {
				if cl, ok := u.X.(*ast.CompositeLit); ok {
					if s, ok := cl.Type.(*ast.SelectorExpr); ok {
						it.FixT = s.Sel.Name
					}
				}
			}
			return it
		}
	case *ast.SelectorExpr: // NewXGrp().Group | makeX().Component
		if call, ok := x.X.(*ast.CallExpr); ok {
			if id, ok := call.Fun.(*ast.Ident); ok {
				switch x.Sel.Name {
				case "Group":
					return Item{Kind: "group", Type: strings.TrimPrefix(id.Name, "New")}
				case "Component":
					return Item{Kind: "component", Type: strings.TrimPrefix(id.Name, "make")}
				}
			}
		}
	}
	return Item{Kind: "?" + typeString(fset, e)}
}

// itemList finds the call named callee (NewComponent, SetBody, NewGroup) in fn
// and returns its item arguments (after skip leading arguments).
func (em *Emitted) itemList(fn *ast.FuncDecl, callee string, skip int) ([]Item, []ast.Expr, bool) {
	var out []Item
	var head []ast.Expr
	found := false
	ast.Inspect(fn, func(n ast.Node) bool {
		call, ok := n.(*ast.CallExpr)
		if !ok || found {
			return !found
		}
		if sel, ok := call.Fun.(*ast.SelectorExpr); ok && sel.Sel.Name == callee {
			found = true
			head = call.Args[:min(skip, len(call.Args))]
			for _, a := range call.Args[min(skip, len(call.Args)):] {
				out = append(out, parseItem(em.Fset, a))
			}
			return false
		}
		return true
	})
	return out, head, found
}

// getIndex returns the integer literal passed to the first .Get(i) / .Set(i, ..) call in fn.
func getIndex(fn *ast.FuncDecl) (int, bool) {
	idx, ok := -1, false
	ast.Inspect(fn, func(n ast.Node) bool {
		call, isCall := n.(*ast.CallExpr)
		if !isCall || ok {
			return !ok
		}
		if sel, isSel := call.Fun.(*ast.SelectorExpr); isSel && (sel.Sel.Name == "Get" || sel.Sel.Name == "Set") && len(call.Args) >= 1 {
			if lit, isLit := call.Args[0].(*ast.BasicLit); isLit && lit.Kind == token.INT {
				idx, _ = strconv.Atoi(lit.Value)
				ok = true
				return false
			}
		}
		return true
	})
	return idx, ok
}

func (em *Emitted) params(fn *ast.FuncDecl) (names, types []string) {
	if fn.Type.Params == nil {
		return
	}
	for _, f := range fn.Type.Params.List {
		t := typeString(em.Fset, f.Type)
		for _, n := range f.Names {
			names = append(names, n.Name)
			types = append(types, t)
		}
	}
	return
}

func (em *Emitted) result(fn *ast.FuncDecl) string {
	if fn.Type.Results == nil || len(fn.Type.Results.List) != 1 {
		return ""
	}
	return typeString(em.Fset, fn.Type.Results.List[0].Type)
}

// setterCalls lists (setterName, argumentIdent) of the chained Set... calls in fn, in source order.
func setterCalls(fn *ast.FuncDecl) [][2]string {
	type sc struct {
		pos  token.Pos
		name string
		arg  string
	}
	var found []sc
	ast.Inspect(fn, func(n ast.Node) bool {
		call, ok := n.(*ast.CallExpr)
		if !ok {
			return true
		}
		if sel, ok := call.Fun.(*ast.SelectorExpr); ok && strings.HasPrefix(sel.Sel.Name, "Set") && sel.Sel.Name != "SetBody" && sel.Sel.Name != "SetHeader" && sel.Sel.Name != "SetTrailer" && len(call.Args) == 1 {
			if id, ok := call.Args[0].(*ast.Ident); ok {
				found = append(found, sc{sel.Sel.Pos(), sel.Sel.Name, id.Name})
			}
		}
		return true
	})
	sort.Slice(found, func(i, j int) bool { return found[i].pos < found[j].pos })
	var out [][2]string
	for _, f := range found {
		out = append(out, [2]string{f.name, f.arg})
	}
	return out
}

// Finding is one disagreement between the emitted package and the schema.
type Finding struct {
	Class string
	Msg   string
}

// Validate compares the emitted package with the expectations. It returns the
// disagreements and the number of comparisons made.
func Validate(em *Emitted, ex *Expect) (fs []Finding, checked int) {
	bad := func(class, format string, a ...any) { fs = append(fs, Finding{class, fmt.Sprintf(format, a...)}) }
	// files and package clause
	checked++
	if strings.Join(em.Files, ",") != strings.Join(ex.Files, ",") {
		bad("file-set", "emitted files differ from the expected set: missing %v, unexpected %v", diff(ex.Files, em.Files), diff(em.Files, ex.Files))
	}
	for _, f := range em.Files {
		checked++
		if em.Pkg[f] != ex.Pkg {
			bad("package-clause", "%s declares package %s, want %s", f, em.Pkg[f], ex.Pkg)
		}
	}
	// field-number constants
	for name, num := range ex.FieldConsts {
		checked++
		if got, ok := em.Consts[name]; !ok || got != num {
			bad("field-constant", "%s = %q, the schema says %q", name, got, num)
		}
	}
	for name := range em.Consts {
		if strings.HasPrefix(name, "Field") && em.FileOf[name] == "fields.go" {
			checked++
			if _, ok := ex.FieldConsts[name]; !ok {
				bad("field-constant", "constant %s is not a field of the schema", name)
			}
		}
	}
	checked++
	if got := em.Consts["beginString"]; got != ex.BeginString {
		bad("begin-string", "beginString = %q, the schema says %q", got, ex.BeginString)
	}
	for _, c := range ex.Containers {
		fs2, n := validateContainer(em, c)
		fs = append(fs, fs2...)
		checked += n
	}
	return fs, checked
}

func diff(a, b []string) []string {
	in := map[string]bool{}
	for _, x := range b {
		in[x] = true
	}
	var out []string
	for _, x := range a {
		if !in[x] {
			out = append(out, x)
		}
	}
	return out
}

func validateContainer(em *Emitted, c *XContainer) (fs []Finding, checked int) {
	bad := func(class, format string, a ...any) {
		fs = append(fs, Finding{class, c.TypeName + ": " + fmt.Sprintf(format, a...)})
	}
	// constructor and its item list
	var items []Item
	var ok bool
	mk := em.Funcs["make"+c.TypeName]
	checked++
	if mk == nil {
		bad("missing-func", "make%s is not emitted", c.TypeName)
		return
	}
	switch c.Kind {
	case "message":
		items, _, ok = em.itemList(mk, "SetBody", 0)
		checked++
		if got := em.Consts["MsgType"+c.TypeName]; got != c.MsgType {
			bad("msgtype-constant", "MsgType%s = %q, the schema says %q", c.TypeName, got, c.MsgType)
		}
	default:
		items, _, ok = em.itemList(mk, "NewComponent", 0)
	}
	checked++
	if !ok {
		bad("item-list", "cannot find the item list of make%s", c.TypeName)
		return
	}
	var want []string
	for _, m := range c.Members {
		switch m.Kind {
		case "field":
			want = append(want, Item{Kind: "field", Const: "Field" + m.Name, FixT: m.FixT}.String())
		case "component":
			want = append(want, Item{Kind: "component", Type: m.TypeName}.String())
		case "group":
			want = append(want, Item{Kind: "group", Type: m.TypeName}.String())
		}
	}
	var got []string
	for _, it := range items {
		got = append(got, it.String())
	}
	checked += len(want)
	if strings.Join(got, " ") != strings.Join(want, " ") {
		i := 0
		for i < len(got) && i < len(want) && got[i] == want[i] {
			i++
		}
		g, w := "(nothing)", "(nothing)"
		if i < len(got) {
			g = got[i]
		}
		if i < len(want) {
			w = want[i]
		}
		bad("item-list", "members of make%s differ from the schema at position %d: emitted %s, schema %s (%d emitted, %d in the schema)", c.TypeName, i, g, w, len(got), len(want))
	}
	if c.Group != nil {
		ng := em.Funcs["New"+c.Group.TypeName]
		checked++
		if ng == nil {
			bad("missing-func", "New%s is not emitted", c.Group.TypeName)
		} else {
			gitems, head, ok := em.itemList(ng, "NewGroup", 1)
			checked += 2
			if !ok || len(head) != 1 {
				bad("group-template", "cannot find fix.NewGroup in New%s", c.Group.TypeName)
			} else {
				if id, isID := head[0].(*ast.Ident); !isID || id.Name != "Field"+c.Group.CountName {
					bad("group-count-tag", "New%s counts with %s, the group's own count field is Field%s", c.Group.TypeName, typeString(em.Fset, head[0]), c.Group.CountName)
				}
				var g2 []string
				for _, it := range gitems {
					g2 = append(g2, it.String())
				}
				if strings.Join(g2, " ") != strings.Join(want, " ") {
					bad("group-template", "template of New%s differs from the schema: emitted %v, schema %v", c.Group.TypeName, g2, want)
				}
			}
		}
	}
	// accessors
	for _, m := range c.Members {
		getter := em.Funcs[c.TypeName+"."+m.Accessor]
		setter := em.Funcs[c.TypeName+".Set"+m.Accessor]
		checked += 2
		if getter == nil || setter == nil {
			bad("missing-accessor", "getter/setter of member %s (%s / Set%s) not emitted", m.Name, m.Accessor, m.Accessor)
			continue
		}
		checked += 4
		if r := em.result(getter); r != m.GoT {
			bad("getter-type", "%s() returns %s, the type mapping says %s", m.Accessor, r, m.GoT)
		}
		if i, ok := getIndex(getter); !ok || i != m.Index {
			bad("getter-index", "%s() reads item %d, the member is at position %d", m.Accessor, i, m.Index)
		}
		_, pt := em.params(setter)
		if len(pt) != 1 || pt[0] != m.GoT {
			bad("setter-type", "Set%s takes %v, the type mapping says %s", m.Accessor, pt, m.GoT)
		}
		if i, ok := getIndex(setter); !ok || i != m.Index {
			bad("setter-index", "Set%s writes item %d, the member is at position %d", m.Accessor, i, m.Index)
		}
	}
	// populating constructor: required members are its arguments, in order, each bound to its own setter
	ctorName := ""
	switch c.Kind {
	case "message":
		ctorName = "Create" + c.TypeName
	case "component", "header", "trailer":
		ctorName = "New" + c.TypeName
	}
	if ctorName != "" {
		ctor := em.Funcs[ctorName]
		checked++
		if ctor == nil {
			bad("missing-func", "%s is not emitted", ctorName)
			return
		}
		var wantNames, wantTypes, wantCalls []string
		for _, m := range c.Members {
			if m.Required {
				wantNames = append(wantNames, m.Local)
				wantTypes = append(wantTypes, m.GoT)
				wantCalls = append(wantCalls, "Set"+m.Accessor+"("+m.Local+")")
			}
		}
		pn, pt := em.params(ctor)
		checked += 2
		if strings.Join(pn, ",") != strings.Join(wantNames, ",") || strings.Join(pt, ",") != strings.Join(wantTypes, ",") {
			bad("constructor-args", "%s(%v %v), the required members are (%v %v)", ctorName, pn, pt, wantNames, wantTypes)
		}
		var gotCalls []string
		for _, sc := range setterCalls(ctor) {
			gotCalls = append(gotCalls, sc[0]+"("+sc[1]+")")
		}
		if strings.Join(gotCalls, " ") != strings.Join(wantCalls, " ") {
			bad("constructor-binding", "%s calls %v, required members need %v", ctorName, gotCalls, wantCalls)
		}
	}
	return
}
