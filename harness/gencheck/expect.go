// Package gencheck decides C12: it runs cmd/fixgen on shipped and derived
// schemas and validates the emitted package against expectations computed
// from the harness's own schema model (harness/schema), statically (go/ast)
// and by executing a driver generated from the same model.
package gencheck

import (
	"fmt"
	"sort"
	"strings"

	"verif/harness/schema"
)

// XMember is what the schema says about one member of a container.
type XMember struct {
	Kind      string // field | component | group
	Name      string // schema name
	Required  bool
	Tag       string // field number (group: number of the count field)
	FixT      string // library value type: String, Int, Float, Bool, Time, Raw (fields)
	GoT       string // Go type of getter/setter
	Accessor  string // getter name; setter is "Set"+Accessor
	Local     string // parameter name
	TypeName  string // component / group Go type name
	EntryName string // group: entry type
	Index     int    // position inside the container
}

// XContainer is a generated type that holds members.
type XContainer struct {
	Kind     string // message | component | header | trailer | entry
	TypeName string
	MsgType  string
	Members  []XMember
	File     string // file name without directory
	Group    *XGroup
}

type XGroup struct {
	TypeName  string
	EntryName string
	CountTag  string
	CountName string
}

// Expect is everything the emitted package must contain.
type Expect struct {
	Pkg         string
	BeginString string
	FieldConsts map[string]string // Field<Name> -> number
	Containers  []*XContainer
	Files       []string
	Conflated   []string // group names defined more than once with different members
	EnumFiles   []string
}

var goTypes = map[string]string{"Float": "float64", "Int": "int", "Raw": "[]byte", "Bool": "bool", "String": "string", "Time": "time.Time"}

func lowerFirst(s string) string { return strings.ToLower(s[:1]) + s[1:] }

// GroupTypeName mirrors the documented naming rule: the first "No" is dropped.
func GroupTypeName(name string) string  { return strings.Replace(name, "No", "", 1) + "Grp" }
func GroupEntryName(name string) string { return strings.Replace(name, "No", "", 1) + "Entry" }

func memberSig(ms []*schema.Member) string {
	s := ""
	for _, m := range ms {
		s += m.Kind + ":" + m.Name + ":" + fmt.Sprint(m.Required) + "(" + memberSig(m.Members) + ")"
	}
	return s
}

// effectiveGroups maps a group name to the definition the emitted type is
// built from (one Go type per name; the last definition in the generator's
// traversal order) and lists names with conflicting definitions.
func effectiveGroups(s *schema.Schema) (map[string]*schema.Member, []string) {
	defs := map[string]*schema.Member{}
	sigs := map[string]map[string]bool{}
	var grab func(m *schema.Member)
	grab = func(m *schema.Member) {
		if m.Kind == "group" {
			defs[m.Name] = m
			if sigs[m.Name] == nil {
				sigs[m.Name] = map[string]bool{}
			}
			sigs[m.Name][memberSig(m.Members)] = true
		}
		for _, c := range m.Members {
			grab(c)
		}
	}
	for _, msg := range s.Messages {
		for _, m := range msg.Members {
			grab(m)
		}
	}
	for _, c := range s.Components {
		for _, m := range c.Members {
			grab(m)
		}
	}
	for _, m := range s.Header.Members {
		grab(m)
	}
	for _, m := range s.Trailer.Members {
		grab(m)
	}
	var conflicted []string
	for name, set := range sigs {
		if len(set) > 1 {
			conflicted = append(conflicted, name)
		}
	}
	sort.Strings(conflicted)
	return defs, conflicted
}

func (e *Expect) members(s *schema.Schema, tm *schema.TypeMap, ms []*schema.Member, dropFraming bool) ([]XMember, error) {
	var out []XMember
	for _, m := range ms {
		if dropFraming && schema.Framing[m.Name] {
			continue
		}
		x := XMember{Kind: m.Kind, Name: m.Name, Required: m.Required, Local: lowerFirst(m.Name), Index: len(out)}
		switch m.Kind {
		case "field":
			f := s.Field(m.Name)
			if f == nil {
				return nil, fmt.Errorf("field %s undefined", m.Name)
			}
			cast, err := s.ValueType(tm, f)
			if err != nil {
				return nil, err
			}
			x.Tag, x.FixT, x.GoT, x.Accessor = f.Number, cast, goTypes[cast], m.Name
		case "component":
			x.TypeName, x.Accessor, x.GoT = m.Name, m.Name, "*"+m.Name
		case "group":
			f := s.Field(m.Name)
			if f == nil {
				return nil, fmt.Errorf("count field %s undefined", m.Name)
			}
			x.Tag = f.Number
			x.TypeName, x.EntryName = GroupTypeName(m.Name), GroupEntryName(m.Name)
			x.Accessor, x.GoT = x.TypeName, "*"+x.TypeName
		}
		out = append(out, x)
	}
	return out, nil
}

// Expected computes the expectations for a schema and a package name.
func Expected(s *schema.Schema, tm *schema.TypeMap, pkg string) (*Expect, error) {
	e := &Expect{Pkg: pkg, BeginString: s.Type + "." + s.Major + "." + s.Minor, FieldConsts: map[string]string{}}
	for _, f := range s.Fields {
		e.FieldConsts["Field"+f.Name] = f.Number
		cast, _ := tm.Cast(f.Type)
		if len(f.Values) > 0 && cast != "Bool" {
			e.EnumFiles = append(e.EnumFiles, "enum_"+strings.ToLower(f.Name)+".go")
		}
	}
	add := func(c *XContainer) { e.Containers = append(e.Containers, c) }
	hm, err := e.members(s, tm, s.Header.Members, true)
	if err != nil {
		return nil, err
	}
	add(&XContainer{Kind: "header", TypeName: "Header", Members: hm, File: "header.go"})
	tmm, err := e.members(s, tm, s.Trailer.Members, true)
	if err != nil {
		return nil, err
	}
	add(&XContainer{Kind: "trailer", TypeName: "Trailer", Members: tmm, File: "trailer.go"})
	for _, m := range s.Messages {
		ms, err := e.members(s, tm, m.Members, false)
		if err != nil {
			return nil, err
		}
		add(&XContainer{Kind: "message", TypeName: m.Name, MsgType: m.MsgType, Members: ms, File: strings.ToLower(m.Name) + ".go"})
	}
	for _, c := range s.Components {
		ms, err := e.members(s, tm, c.Members, false)
		if err != nil {
			return nil, err
		}
		add(&XContainer{Kind: "component", TypeName: c.Name, Members: ms, File: strings.ToLower(c.Name) + ".go"})
	}
	defs, conflicted := effectiveGroups(s)
	e.Conflated = conflicted
	var names []string
	for n := range defs {
		names = append(names, n)
	}
	sort.Strings(names)
	for _, n := range names {
		g := defs[n]
		ms, err := e.members(s, tm, g.Members, false)
		if err != nil {
			return nil, err
		}
		f := s.Field(n)
		if f == nil {
			return nil, fmt.Errorf("count field %s undefined", n)
		}
		xg := &XGroup{TypeName: GroupTypeName(n), EntryName: GroupEntryName(n), CountTag: f.Number, CountName: n}
		add(&XContainer{Kind: "entry", TypeName: xg.EntryName, Members: ms, File: strings.ToLower(xg.TypeName) + ".go", Group: xg})
	}
	files := map[string]bool{"fields.go": true}
	for _, c := range e.Containers {
		files[c.File] = true
	}
	for _, f := range e.EnumFiles {
		files[f] = true
	}
	for f := range files {
		e.Files = append(e.Files, f)
	}
	sort.Strings(e.Files)
	return e, nil
}
