package gencheck

import (
	"fmt"
	"go/ast"
	"os"
	"path/filepath"
	"sort"
	"strings"
	"testing"

	"pgregory.net/rapid"

	"verif/harness/evid"
	"verif/harness/pbt"
	"verif/harness/schema"
)

// ---------- C12: generated code is a faithful, deterministic translation ----------

type C12Case struct {
	Base     string `json:"base"`      // "fix44" (source/fix44.xml) or "big" (generator/testdata/fix.4.4.xml minus its duplicate)
	Ops      []Op   `json:"ops"`       // mutations deriving the schema
	OutStyle string `json:"out_style"` // relative | nested | absolute | dashed
	Level    string `json:"level"`     // static | build | driver
	Twice    bool   `json:"twice"`     // generate a second time elsewhere and compare
	Dirty    bool   `json:"dirty"`     // the output directory already holds a (longer) earlier generation
}

func loadBase(name string) (*schema.Schema, *schema.TypeMap, error) {
	switch name {
	case "fix44":
		s, err := schema.Load(schema.RepoDir() + "/source/fix44.xml")
		if err != nil {
			return nil, nil, err
		}
		tm, err := schema.LoadTypes(schema.RepoDir() + "/source/types.xml")
		return s, tm, err
	case "big":
		s, err := schema.Load(schema.RepoDir() + "/generator/testdata/fix.4.4.xml")
		if err != nil {
			return nil, nil, err
		}
		// the test schema carries one deliberate duplicate (IAmTestMessage reuses msgtype 0)
		var ms []*schema.Container
		for _, m := range s.Messages {
			if m.Name != "IAmTestMessage" {
				ms = append(ms, m)
			}
		}
		s.Messages = ms
		tm, err := schema.LoadTypes(schema.RepoDir() + "/generator/testdata/types.xml")
		return s, tm, err
	}
	return nil, nil, fmt.Errorf("unknown base %s", name)
}

func outDir(style, pkg string, w *Work) (out, wantPkg string) {
	switch style {
	case "nested":
		return filepath.Join("gen", "sub", pkg), pkg
	case "absolute":
		return filepath.Join(w.Dir, "abs", pkg), pkg
	case "dashed":
		return "my-" + pkg, "my_" + pkg
	case "dashed2":
		return "my-gen-4-" + pkg, "my_gen_4_" + pkg // every '-' of the directory's base name becomes '_'
	}
	return pkg, pkg
}

func checkC12(c *C12Case, rec *evid.Rec) (vs []pbt.Violation) {
	base, baseTM, err := loadBase(c.Base)
	if err != nil {
		return []pbt.Violation{pbt.V("harness", "cannot load schema %s: %v", c.Base, err)}
	}
	s, tm, log, mustReject, structural := Apply(base, baseTM, c.Ops)
	w, err := NewWork("c12")
	if err != nil {
		return []pbt.Violation{pbt.V("harness", "%v", err)}
	}
	defer w.Remove()
	pkg := "fixgenpkg"
	out, wantPkg := outDir(c.OutStyle, pkg, w)
	if c.Dirty && !mustReject {
		// an earlier generation of the same schema is already there, every file longer than it will be
		if _, failed0, _ := w.Generate(s, tm, out); !failed0 {
			old, _ := FileSet(w.Abs(out))
			for name, body := range old {
				_ = os.WriteFile(filepath.Join(w.Abs(out), name), []byte(body+strings.Repeat("\n// left over from an earlier generation", 3)+"\n"), 0o644)
			}
		}
	}
	output, failed, err := w.Generate(s, tm, out)
	if err != nil {
		return []pbt.Violation{pbt.V("harness", "%v", err)}
	}
	desc := fmt.Sprintf("base %s, %d ops %v, output dir style %s, dirty %v", c.Base, len(c.Ops), log, c.OutStyle, c.Dirty)
	rec.Extra("programs", 1)
	sampleNow := func(extra map[string]any) {
		if rec.WantSample() && structural > 0 {
			m := map[string]any{"base": c.Base, "mutations": log, "out_style": c.OutStyle, "level": c.Level}
			for k, v := range extra {
				m[k] = v
			}
			rec.Sample(m)
		}
	}
	fp := evid.FP(s.XML(), tm.XML(), []byte(c.OutStyle))
	if mustReject {
		rec.Hist("must-reject")
		rec.Extra("disagreements_checked", 1)
		rec.Case(fp, true)
		if !failed {
			vs = append(vs, pbt.V("duplicate-accepted", "%s: the schema holds a duplicate field number or message type but the generator accepted it", desc))
		}
		sampleNow(map[string]any{"rejected": failed})
		return vs
	}
	if failed {
		key := "generator-failed:" + c.OutStyle
		if c.OutStyle == "relative" {
			key = "generator-failed"
		}
		return []pbt.Violation{pbt.V(key, "%s: the generator failed on a schema it is meant to accept:\n%s", desc, tailLines(output, 6))}
	}
	ex, err := Expected(s, tm, wantPkg)
	if err != nil {
		return []pbt.Violation{pbt.V("harness", "expectations: %v", err)}
	}
	dir := w.Abs(out)
	em, err := ParseEmitted(dir)
	if err != nil {
		return []pbt.Violation{pbt.V("emitted-unparsable", "%s: %v", desc, err)}
	}
	findings, checked := Validate(em, ex)
	rec.Extra("disagreements_checked", int64(checked))
	for _, f := range findings {
		vs = append(vs, pbt.V("static:"+f.Class, "%s: %s", desc, f.Msg))
		if len(vs) >= 3 {
			break
		}
	}
	if len(ex.Conflated) > 0 {
		vs = append(vs, pbt.V("same-named-groups-conflated", "%s: repeating groups %v are defined more than once with different members, but one Go type per group NAME is emitted (the last definition wins), so the other definitions' members are not what the schema says", desc, ex.Conflated))
	}
	// determinism and location independence
	if c.Twice && len(findings) == 0 {
		other := "relative"
		if c.OutStyle == "relative" {
			other = "nested"
		}
		out2, _ := outDir(other, pkg, w)
		if c.OutStyle == "dashed" {
			out2 = filepath.Join("elsewhere", "my-"+pkg)
		}
		if c.OutStyle == "dashed2" {
			out2 = filepath.Join("elsewhere", "my-gen-4-"+pkg)
		}
		_, failed2, _ := w.Generate(s, tm, out2)
		checkedFiles := 0
		if failed2 {
			vs = append(vs, pbt.V("generator-failed:"+other, "%s: a second generation into %s failed", desc, out2))
		} else {
			a, _ := FileSet(dir)
			b, _ := FileSet(w.Abs(out2))
			var names []string
			for n := range a {
				names = append(names, n)
			}
			for n := range b {
				if _, ok := a[n]; !ok {
					names = append(names, n)
				}
			}
			sort.Strings(names)
			for _, n := range names {
				checkedFiles++
				if a[n] != b[n] {
					vs = append(vs, pbt.V("not-deterministic", "%s: %s differs between two generation runs (%s vs %s)", desc, n, out, out2))
					break
				}
			}
		}
		rec.Extra("disagreements_checked", int64(checkedFiles))
		rec.Hist("generated-twice")
	}
	// compile and run the driver
	if c.Level != "static" && len(findings) == 0 {
		nChecks := 0
		if c.Level == "driver" {
			src, n := Driver(ex)
			nChecks = n
			if err := os.WriteFile(filepath.Join(dir, "zz_harness_driver_test.go"), []byte(src), 0o644); err != nil {
				return []pbt.Violation{pbt.V("harness", "%v", err)}
			}
			outp, err := w.Test(dir)
			if err != nil {
				class := "driver-failed"
				if strings.Contains(outp, "[build failed]") || strings.Contains(outp, "[setup failed]") {
					class = "does-not-compile"
				}
				vs = append(vs, pbt.V(class, "%s:\n%s", desc, tailLines(outp, 12)))
			}
		} else {
			outp, err := w.Build(dir)
			if err != nil {
				vs = append(vs, pbt.V("does-not-compile", "%s:\n%s", desc, tailLines(outp, 12)))
			}
		}
		rec.Extra("disagreements_checked", int64(nChecks))
		rec.Hist("level:" + c.Level)
	} else {
		rec.Hist("level:static")
	}
	rec.Case(fp, structural > 0 || len(c.Ops) == 0)
	rec.Hist("base:" + c.Base)
	if c.Dirty {
		rec.Hist("output-dir-not-empty")
	}
	rec.Hist("out:" + c.OutStyle)
	for _, op := range c.Ops {
		rec.Hist("op:" + op.Kind)
	}
	sampleNow(map[string]any{"files": len(em.Files), "comparisons": checked})
	return vs
}

// TestC12Shipped: the two shipped schemas, unmodified, every output style.
func TestC12Shipped(t *testing.T) {
	rec := evid.New("C12/shipped")
	var cases []*C12Case
	for _, style := range []string{"relative", "nested", "absolute", "dashed", "dashed2"} {
		cases = append(cases, &C12Case{Base: "fix44", OutStyle: style, Level: "driver", Twice: true, Dirty: style == "nested"})
	}
	bigLevel := "static"
	if os.Getenv("VERIF_TIER") == "thorough" {
		bigLevel = "driver"
	}
	cases = append(cases, &C12Case{Base: "big", OutStyle: "relative", Level: bigLevel, Twice: true})
	cases = append(cases, &C12Case{Base: "big", OutStyle: "nested", Level: "static", Twice: false})
	pbt.Enumerate(t, "C12", rec, cases, checkC12)
}

func genC12(t *rapid.T) *C12Case {
	c := &C12Case{Base: "fix44", Level: "driver"}
	if rapid.IntRange(0, 9).Draw(t, "big") == 0 {
		c.Base, c.Level = "big", "static"
		if os.Getenv("VERIF_TIER") == "thorough" {
			c.Level = "build"
		}
	}
	n := rapid.IntRange(2, 14).Draw(t, "nOps")
	for i := 0; i < n; i++ {
		// rapid's draws favour the ends of a range; the second draw spreads the choice evenly
		// over the kinds (both shrink towards the first kind)
		kind := OpKinds[(rapid.IntRange(0, len(OpKinds)-1).Draw(t, "op")+rapid.IntRange(0, 100000).Draw(t, "opSpread"))%len(OpKinds)]
		if (kind == "duplicate-field-number" || kind == "duplicate-msgtype") && rapid.IntRange(0, 3).Draw(t, "keepDup") != 0 {
			kind = "add-field"
		}
		c.Ops = append(c.Ops, Op{Kind: kind, A: rapid.IntRange(0, 100000).Draw(t, "a"), B: rapid.IntRange(0, 100000).Draw(t, "b"), C: rapid.IntRange(0, 100000).Draw(t, "c")})
	}
	c.OutStyle = rapid.SampledFrom([]string{"relative", "relative", "nested", "absolute", "dashed", "dashed2"}).Draw(t, "out")
	c.Twice = rapid.IntRange(0, 2).Draw(t, "twice") == 0
	c.Dirty = rapid.IntRange(0, 3).Draw(t, "dirty") == 0
	return c
}

func TestC12Derived(t *testing.T) {
	rec := evid.New("C12/derived")
	pbt.Run(t, "C12", rec, genC12, checkC12)
}

// ---- the reference package tests/fix44 vs generation from source/fix44.xml ----

type C12RefCase struct {
	Dummy int `json:"dummy"`
}

func normDecl(em *Emitted, d *ast.FuncDecl) string {
	cp := *d
	cp.Doc = nil
	return typeString(em.Fset, &cp)
}

func checkC12Ref(_ *C12RefCase, rec *evid.Rec) (vs []pbt.Violation) {
	s, tm, err := loadBase("fix44")
	if err != nil {
		return []pbt.Violation{pbt.V("harness", "%v", err)}
	}
	w, err := NewWork("ref")
	if err != nil {
		return []pbt.Violation{pbt.V("harness", "%v", err)}
	}
	defer w.Remove()
	output, failed, err := w.Generate(s, tm, "fix44")
	if err != nil || failed {
		return []pbt.Violation{pbt.V("generator-failed", "reference schema: %v %s", err, tailLines(output, 6))}
	}
	gen, err := ParseEmitted(w.Abs("fix44"))
	if err != nil {
		return []pbt.Violation{pbt.V("emitted-unparsable", "%v", err)}
	}
	ref, err := ParseEmitted(schema.RepoDir() + "/tests/fix44")
	if err != nil {
		return []pbt.Violation{pbt.V("harness", "tests/fix44 does not parse: %v", err)}
	}
	n := 0
	rec.Extra("programs", 1)
	if strings.Join(gen.Files, ",") != strings.Join(ref.Files, ",") {
		vs = append(vs, pbt.V("reference:file-set", "tests/fix44 and a fresh generation from source/fix44.xml differ in files: only shipped %v, only generated %v", diff(ref.Files, gen.Files), diff(gen.Files, ref.Files)))
	}
	for name, v := range gen.Consts {
		n++
		if rv, ok := ref.Consts[name]; !ok || rv != v {
			vs = append(vs, pbt.V("reference:constant", "constant %s: generated %q, shipped %q (present=%v)", name, v, rv, ok))
			break
		}
	}
	for name := range ref.Consts {
		n++
		if _, ok := gen.Consts[name]; !ok {
			vs = append(vs, pbt.V("reference:constant", "constant %s is shipped in tests/fix44 but not generated from the reference schema", name))
			break
		}
	}
	for name, d := range gen.Funcs {
		n++
		rd, ok := ref.Funcs[name]
		if !ok {
			vs = append(vs, pbt.V("reference:missing-decl", "%s is generated from the reference schema but absent from tests/fix44", name))
			break
		}
		if normDecl(gen, d) != normDecl(ref, rd) {
			vs = append(vs, pbt.V("reference:decl-differs", "declaration %s differs:\n--- generated\n%s\n--- shipped\n%s", name, normDecl(gen, d), normDecl(ref, rd)))
			break
		}
		if gen.FileOf[name] != ref.FileOf[name] {
			vs = append(vs, pbt.V("reference:decl-file", "%s is generated into %s but shipped in %s", name, gen.FileOf[name], ref.FileOf[name]))
			break
		}
	}
	for name := range ref.Funcs {
		n++
		if _, ok := gen.Funcs[name]; !ok {
			vs = append(vs, pbt.V("reference:extra-decl", "%s is shipped in tests/fix44 but not generated from the reference schema", name))
			break
		}
	}
	rec.Extra("disagreements_checked", int64(n))
	rec.Case(1, true)
	rec.Case(2, true)
	rec.Hist("reference-package")
	if rec.WantSample() {
		rec.Sample(map[string]any{"reference": "tests/fix44 vs fixgen(source/fix44.xml)", "declarations_compared": n})
	}
	return vs
}

func TestC12Reference(t *testing.T) {
	rec := evid.New("C12/reference")
	pbt.Enumerate(t, "C12", rec, []*C12RefCase{{}}, checkC12Ref)
}

// ---- rejection of planted duplicates, by class of the fields involved (generator run only) ----

type C12RejectCase struct {
	Base   string `json:"base"`
	Kind   string `json:"kind"`   // field-number | msgtype
	FirstC string `json:"first"`  // class of the field that keeps its number: enum | plain | bool-values
	SecC   string `json:"second"` // class of the field that receives the duplicate
	A      int    `json:"a"`
	B      int    `json:"b"`
}

func fieldClass(tm *schema.TypeMap, f *schema.FieldDef) string {
	cast, _ := tm.Cast(f.Type)
	switch {
	case len(f.Values) > 0 && cast == "Bool":
		return "bool-values"
	case len(f.Values) > 0:
		return "enum"
	}
	return "plain"
}

func genC12Reject(t *rapid.T) *C12RejectCase {
	classes := []string{"enum", "plain", "bool-values"}
	return &C12RejectCase{
		Base:   rapid.SampledFrom([]string{"fix44", "fix44", "fix44", "big"}).Draw(t, "base"),
		Kind:   rapid.SampledFrom([]string{"field-number", "field-number", "field-number", "msgtype"}).Draw(t, "kind"),
		FirstC: rapid.SampledFrom(classes).Draw(t, "first"),
		SecC:   rapid.SampledFrom(classes).Draw(t, "second"),
		A:      rapid.IntRange(0, 100000).Draw(t, "a"),
		B:      rapid.IntRange(0, 100000).Draw(t, "b"),
	}
}

func checkC12Reject(c *C12RejectCase, rec *evid.Rec) (vs []pbt.Violation) {
	base, tm, err := loadBase(c.Base)
	if err != nil {
		return []pbt.Violation{pbt.V("harness", "%v", err)}
	}
	s := base.Clone()
	what := ""
	if c.Kind == "msgtype" {
		a := s.Messages[c.A%len(s.Messages)]
		b := s.Messages[c.B%len(s.Messages)]
		if a == b {
			b = s.Messages[(c.B+1)%len(s.Messages)]
		}
		what = fmt.Sprintf("message %s gets msgtype %s of message %s", b.Name, a.MsgType, a.Name)
		b.MsgType = a.MsgType
	} else {
		pick := func(class string, n int, not *schema.FieldDef) *schema.FieldDef {
			var cand []*schema.FieldDef
			for _, f := range s.Fields {
				if fieldClass(tm, f) == class && f != not {
					cand = append(cand, f)
				}
			}
			if len(cand) == 0 {
				return nil
			}
			return cand[n%len(cand)]
		}
		a := pick(c.FirstC, c.A, nil)
		b := pick(c.SecC, c.B, a)
		if a == nil || b == nil {
			rec.Hist("skipped:no-field-of-class")
			return nil
		}
		what = fmt.Sprintf("%s field %s (position %d) gets number %s of %s field %s", c.SecC, b.Name, indexOf(s, b), a.Number, c.FirstC, a.Name)
		b.Number = a.Number
	}
	w, err := NewWork("rej")
	if err != nil {
		return []pbt.Violation{pbt.V("harness", "%v", err)}
	}
	defer w.Remove()
	_, failed, err := w.Generate(s, tm, "fixgenpkg")
	if err != nil {
		return []pbt.Violation{pbt.V("harness", "%v", err)}
	}
	rec.Extra("programs", 1)
	rec.Extra("disagreements_checked", 1)
	rec.Case(evid.FPs(c.Base+what), true)
	rec.Hist("reject:" + c.Kind)
	if c.Kind != "msgtype" {
		rec.Hist("reject-first:" + c.FirstC)
		rec.Hist("reject-second:" + c.SecC)
	}
	if rec.WantSample() {
		rec.Sample(map[string]any{"base": c.Base, "planted": what, "rejected": failed})
	}
	if !failed {
		vs = append(vs, pbt.V("duplicate-accepted:"+c.Kind+":"+c.FirstC, "base %s: %s, but the generator accepted the schema", c.Base, what))
	}
	return vs
}

func indexOf(s *schema.Schema, f *schema.FieldDef) int {
	for i, g := range s.Fields {
		if g == f {
			return i
		}
	}
	return -1
}

func TestC12Reject(t *testing.T) {
	rec := evid.New("C12/reject")
	pbt.Run(t, "C12", rec, genC12Reject, checkC12Reject)
}
