package gencheck

import (
	"time"

	"verif/harness/pbt"
)

// A case of these checks runs the generator and compiles (sometimes runs) its
// output: tens of seconds on a busy machine are normal, so the generic 20 s
// hang watchdog of pbt is far too tight here.
func init() { pbt.HangLimit = 15 * time.Minute }
