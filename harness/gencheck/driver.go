package gencheck

import (
	"fmt"
	"strings"
)

// sample returns a Go expression of the given type and the wire text it must
// produce, varying with k so that neighbouring members get different values.
func sample(goT string, k int) (expr, text string) {
	switch goT {
	case "string":
		s := fmt.Sprintf("S%d", k)
		return fmt.Sprintf("%q", s), s
	case "int":
		return fmt.Sprint(100 + k), fmt.Sprint(100 + k)
	case "float64":
		return fmt.Sprintf("%d.5", k), fmt.Sprintf("%d.5", k)
	case "bool":
		return "true", "Y"
	case "time.Time":
		return fmt.Sprintf("time.Date(2020, 1, 2, 3, 4, %d, 6000000, time.UTC)", k%60), fmt.Sprintf("20200102-03:04:%02d.006", k%60)
	case "[]byte":
		s := fmt.Sprintf("R%d", k)
		return fmt.Sprintf("[]byte(%q)", s), s
	}
	return "nil", ""
}

func cmpExpr(goT, got, want string) string {
	switch goT {
	case "[]byte":
		return fmt.Sprintf("!bytes.Equal(%s, %s)", got, want)
	case "time.Time":
		return fmt.Sprintf("!%s.Equal(%s)", got, want)
	}
	return fmt.Sprintf("%s != %s", got, want)
}

// Driver emits the Go test that exercises the emitted package, derived from
// the expectations only. It returns the source and the number of member
// checks it contains.
func Driver(ex *Expect) (string, int) {
	byName := map[string]*XContainer{}
	for _, c := range ex.Containers {
		byName[c.TypeName] = c
	}
	var b strings.Builder
	needTime := false
	n := 0
	w := func(format string, a ...any) { fmt.Fprintf(&b, format, a...) }

	// build(member, k) returns statements that construct a value for a
	// component/group member populated with exactly one field, the variable
	// holding it, the wire tokens it must contribute and a getter check.
	firstField := func(c *XContainer) *XMember {
		for i := range c.Members {
			if c.Members[i].Kind == "field" {
				return &c.Members[i]
			}
		}
		return nil
	}
	type built struct {
		stmts, v string
		toks     []string
		ok       bool
	}
	build := func(m *XMember, k int, v string) built {
		switch m.Kind {
		case "component":
			c := byName[m.TypeName]
			if c == nil {
				return built{}
			}
			f := firstField(c)
			if f == nil {
				return built{stmts: fmt.Sprintf("%s := make%s()\n", v, c.TypeName), v: v, ok: true}
			}
			expr, text := sample(f.GoT, k)
			if f.GoT == "time.Time" {
				needTime = true
			}
			return built{stmts: fmt.Sprintf("%s := make%s()\n%s.Set%s(%s)\n", v, c.TypeName, v, f.Accessor, expr), v: v,
				toks: []string{f.Tag + "=" + text}, ok: true}
		case "group":
			c := byName[m.EntryName]
			if c == nil || len(c.Members) == 0 || c.Members[0].Kind != "field" {
				return built{stmts: fmt.Sprintf("%s := New%s()\n", v, m.TypeName), v: v, ok: true}
			}
			f := &c.Members[0]
			expr, text := sample(f.GoT, k)
			if f.GoT == "time.Time" {
				needTime = true
			}
			return built{stmts: fmt.Sprintf("%s := New%s()\n%sE := New%s()\n%sE.Set%s(%s)\n%s.AddEntry(%sE)\n", v, m.TypeName, v, m.EntryName, v, f.Accessor, expr, v, v), v: v,
				toks: []string{m.Tag + "=1", f.Tag + "=" + text}, ok: true}
		}
		return built{}
	}
	quoteList := func(toks []string) string {
		var q []string
		for _, t := range toks {
			q = append(q, fmt.Sprintf("%q", t))
		}
		return strings.Join(q, ", ")
	}
	var body strings.Builder
	bw := func(format string, a ...any) { fmt.Fprintf(&body, format, a...) }
	for _, c := range ex.Containers {
		fresh := "make" + c.TypeName + "()"
		ser := func(v string) string { return v + ".ToBytes()" }
		isMsg := c.Kind == "message"
		for i := range c.Members {
			m := &c.Members[i]
			k := i + 1
			what := c.TypeName + "." + m.Name
			bw("\t{ // %s\n\t\tx := %s\n", what, fresh)
			var toks []string
			switch m.Kind {
			case "field":
				expr, text := sample(m.GoT, k)
				if m.GoT == "time.Time" {
					needTime = true
				}
				bw("\t\tx.Set%s(%s)\n", m.Accessor, expr)
				bw("\t\tif %s {\n\t\t\tt.Errorf(\"%s: getter returns %%v after the setter stored %%v\", x.%s(), %s)\n\t\t}\n", cmpExpr(m.GoT, "x."+m.Accessor+"()", expr), what, m.Accessor, expr)
				toks = []string{m.Tag + "=" + text}
			default:
				bl := build(m, k, "v")
				if !bl.ok {
					bw("\t}\n")
					continue
				}
				bw("\t\t%s", strings.ReplaceAll(bl.stmts, "\n", "\n\t\t"))
				bw("x.Set%s(v)\n", m.Accessor)
				bw("\t\tif x.%s() == nil {\n\t\t\tt.Errorf(\"%s: getter returns nil\")\n\t\t}\n", m.Accessor, what)
				toks = bl.toks
			}
			if isMsg {
				bw("\t\tcheckMsg(t, %q, x, %q, %s)\n", what, c.MsgType, quoteList(toks))
			} else {
				bw("\t\tcheckPart(t, %q, %s, %s)\n", what, ser("x"), quoteList(toks))
			}
			bw("\t}\n")
			n++
		}
		// the populating constructor
		ctor := ""
		switch c.Kind {
		case "message":
			ctor = "Create" + c.TypeName
		case "component", "header", "trailer":
			ctor = "New" + c.TypeName
		}
		if ctor != "" {
			var args []string
			var toks []string
			var pre strings.Builder
			for i := range c.Members {
				m := &c.Members[i]
				if !m.Required {
					continue
				}
				k := 40 + i
				switch m.Kind {
				case "field":
					expr, text := sample(m.GoT, k)
					if m.GoT == "time.Time" {
						needTime = true
					}
					args = append(args, expr)
					toks = append(toks, m.Tag+"="+text)
				default:
					v := fmt.Sprintf("a%d", i)
					bl := build(m, k, v)
					pre.WriteString("\t\t" + strings.ReplaceAll(strings.TrimSuffix(bl.stmts, "\n"), "\n", "\n\t\t") + "\n")
					args = append(args, v)
					toks = append(toks, bl.toks...)
				}
			}
			bw("\t{ // %s\n%s\t\tx := %s(%s)\n", ctor, pre.String(), ctor, strings.Join(args, ", "))
			if isMsg {
				bw("\t\tcheckMsg(t, %q, x, %q, %s)\n", ctor, c.MsgType, quoteList(toks))
			} else {
				bw("\t\tcheckPart(t, %q, x.ToBytes(), %s)\n", ctor, quoteList(toks))
			}
			bw("\t}\n")
			n++
		}
	}
	w("// Code generated by the verification harness from its own schema model. DO NOT EDIT.\n\npackage %s\n\nimport (\n\t\"bytes\"\n\t\"strings\"\n\t\"testing\"\n", ex.Pkg)
	if needTime {
		w("\t\"time\"\n")
	}
	w(")\n\nvar _ = bytes.Equal\n\n")
	w(`func split(b []byte) []string {
	if len(b) == 0 {
		return nil
	}
	return strings.Split(string(b), "\x01")
}

func checkPart(t *testing.T, what string, got []byte, want ...string) {
	t.Helper()
	g := split(got)
	if strings.Join(g, "|") != strings.Join(want, "|") {
		t.Errorf("%%s: wire fields %%q, the schema prescribes %%q", what, g, want)
	}
}

func checkMsg(t *testing.T, what string, m interface{ ToBytes() ([]byte, error) }, msgType string, want ...string) {
	t.Helper()
	b, err := m.ToBytes()
	if err != nil {
		t.Errorf("%%s: ToBytes: %%v", what, err)
		return
	}
	g := split(bytes.TrimSuffix(b, []byte{1}))
	if len(g) < 4 || g[0] != %q || !strings.HasPrefix(g[1], %q) || g[2] != %q+msgType || !strings.HasPrefix(g[len(g)-1], %q) {
		t.Errorf("%%s: framing fields wrong: %%q", what, g)
		return
	}
	inner := g[3 : len(g)-1]
	if strings.Join(inner, "|") != strings.Join(want, "|") {
		t.Errorf("%%s: wire fields %%q, the schema prescribes %%q", what, inner, want)
	}
}

`, ex.FieldConsts["FieldBeginString"]+"="+ex.BeginString, ex.FieldConsts["FieldBodyLength"]+"=", ex.FieldConsts["FieldMsgType"]+"=", ex.FieldConsts["FieldCheckSum"]+"=")
	w("func TestHarnessDriver(t *testing.T) {\n%s}\n", body.String())
	return b.String(), n
}
