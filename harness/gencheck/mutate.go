package gencheck

import (
	"fmt"
	"strconv"

	"verif/harness/schema"
)

// Op is one schema mutation. A, B, C are raw draws, interpreted modulo the
// sizes found when the op is applied, so that a list of ops is a pure,
// shrinkable description of a derived schema.
type Op struct {
	Kind string `json:"kind"`
	A    int    `json:"a"`
	B    int    `json:"b"`
	C    int    `json:"c"`
}

var OpKinds = []string{"remove-member", "swap-members", "rename-field", "add-field", "remove-message", "add-message",
	"toggle-required", "change-field-type", "change-type-mapping", "add-enum-values", "add-group", "add-component",
	"remove-component", "duplicate-field-number", "duplicate-msgtype", "reorder-messages", "add-nested-groups", "move-framing-field", "same-group-in-components", "change-version", "add-time-field", "type-named-like-enum-field", "enum-of-unmapped-type", "optional-session-field", "odd-required-attribute", "framing-named-member-in-group"}

// names the generator or the library's interfaces rely on
var protectedFields = map[string]bool{
	"BeginString": true, "BodyLength": true, "MsgType": true, "CheckSum": true,
	"SenderCompID": true, "TargetCompID": true, "MsgSeqNum": true, "SendingTime": true,
	"HeartBtInt": true, "EncryptMethod": true, "Password": true, "Username": true, "ResetSeqNumFlag": true,
	"TestReqID": true, "BeginSeqNo": true, "EndSeqNo": true, "NewSeqNo": true, "GapFillFlag": true,
	"SessionRejectReason": true, "RefSeqNum": true, "RefTagID": true,
}

// FIX types whose mapping the protected fields depend on
func protectedTypes(s *schema.Schema) map[string]bool {
	out := map[string]bool{}
	for _, f := range s.Fields {
		if protectedFields[f.Name] {
			out[f.Type] = true
		}
	}
	return out
}

type holder struct {
	label   string
	members *[]*schema.Member
	isGroup bool
}

// holders lists every member list of the schema (header, trailer, messages,
// components, and groups nested anywhere).
func holders(s *schema.Schema) []holder {
	var out []holder
	var walk func(label string, ms *[]*schema.Member, isGroup bool)
	walk = func(label string, ms *[]*schema.Member, isGroup bool) {
		out = append(out, holder{label, ms, isGroup})
		for _, m := range *ms {
			if m.Kind == "group" {
				walk(label+"/"+m.Name, &m.Members, true)
			}
		}
	}
	walk("header", &s.Header.Members, false)
	walk("trailer", &s.Trailer.Members, false)
	for _, m := range s.Messages {
		walk("message:"+m.Name, &m.Members, false)
	}
	for _, c := range s.Components {
		walk("component:"+c.Name, &c.Members, false)
	}
	return out
}

func maxFieldNumber(s *schema.Schema) int {
	max := 0
	for _, f := range s.Fields {
		if n, err := strconv.Atoi(f.Number); err == nil && n > max {
			max = n
		}
	}
	return max
}

func renameRefs(ms []*schema.Member, from, to string) {
	for _, m := range ms {
		if m.Name == from && (m.Kind == "field" || m.Kind == "group") {
			m.Name = to
		}
		renameRefs(m.Members, from, to)
	}
}

func dropComponentRefs(ms []*schema.Member, name string) []*schema.Member {
	var out []*schema.Member
	for _, m := range ms {
		if m.Kind == "component" && m.Name == name {
			continue
		}
		m.Members = dropComponentRefs(m.Members, name)
		out = append(out, m)
	}
	return out
}

func isGroupName(s *schema.Schema, name string) bool {
	for _, h := range holders(s) {
		for _, m := range *h.members {
			if m.Kind == "group" && m.Name == name {
				return true
			}
		}
	}
	return false
}

var fixTypesForNew = []string{"STRING", "INT", "PRICE", "BOOLEAN", "QTY", "CHAR", "AMT", "LENGTH"}
var castChoices = []string{"String", "Int", "Float", "Bool", "Time", "Raw"}

// Apply applies the ops to clones of the schema and the type map. It returns
// the derived schema, a human-readable log, whether the result must be
// REJECTED by the generator (a duplicate was planted) and how many ops changed
// the structure.
func Apply(base *schema.Schema, baseTM *schema.TypeMap, ops []Op) (s *schema.Schema, tm *schema.TypeMap, log []string, mustReject bool, structural int) {
	s = base.Clone()
	tm = &schema.TypeMap{ConfigName: baseTM.ConfigName, Entries: append([]schema.TypeEntry(nil), baseTM.Entries...)}
	fresh := 0
	note := func(format string, a ...any) { log = append(log, fmt.Sprintf(format, a...)); structural++ }
	skip := func(op Op, why string) { log = append(log, fmt.Sprintf("(%s skipped: %s)", op.Kind, why)) }
	for _, op := range ops {
		hs := holders(s)
		switch op.Kind {
		case "remove-member":
			h := hs[op.A%len(hs)]
			if len(*h.members) == 0 {
				skip(op, "empty container")
				continue
			}
			i := op.B % len(*h.members)
			m := (*h.members)[i]
			if protectedFields[m.Name] && m.Kind == "field" {
				skip(op, "protected field "+m.Name)
				continue
			}
			if h.isGroup && len(*h.members) == 1 {
				skip(op, "a group must keep one member")
				continue
			}
			*h.members = append((*h.members)[:i:i], (*h.members)[i+1:]...)
			note("remove %s %s from %s", m.Kind, m.Name, h.label)
		case "swap-members":
			h := hs[op.A%len(hs)]
			if len(*h.members) < 2 {
				skip(op, "fewer than two members")
				continue
			}
			i := op.B % (len(*h.members) - 1)
			(*h.members)[i], (*h.members)[i+1] = (*h.members)[i+1], (*h.members)[i]
			note("swap members %d and %d of %s (%s, %s)", i, i+1, h.label, (*h.members)[i].Name, (*h.members)[i+1].Name)
		case "rename-field":
			f := s.Fields[op.A%len(s.Fields)]
			if protectedFields[f.Name] {
				skip(op, "protected field "+f.Name)
				continue
			}
			fresh++
			to := fmt.Sprintf("Zz%s%d", f.Name, fresh)
			if isGroupName(s, f.Name) {
				to = fmt.Sprintf("NoZz%s%d", f.Name, fresh)
			}
			from := f.Name
			f.Name = to
			for _, h := range hs {
				renameRefs(*h.members, from, to)
			}
			note("rename field %s to %s", from, to)
		case "add-field":
			fresh++
			name := fmt.Sprintf("ZzNew%d", fresh)
			num := strconv.Itoa(maxFieldNumber(s) + 1 + op.C%50)
			typ := fixTypesForNew[op.C%len(fixTypesForNew)]
			s.Fields = append(s.Fields, &schema.FieldDef{Number: num, Name: name, Type: typ})
			h := hs[op.A%len(hs)]
			pos := op.B % (len(*h.members) + 1)
			m := &schema.Member{Kind: "field", Name: name, Required: op.C%3 == 0}
			*h.members = append((*h.members)[:pos:pos], append([]*schema.Member{m}, (*h.members)[pos:]...)...)
			note("add field %s (#%s, %s, required=%v) to %s at %d", name, num, typ, m.Required, h.label, pos)
		case "remove-message":
			if len(s.Messages) <= 1 {
				skip(op, "last message")
				continue
			}
			i := op.A % len(s.Messages)
			note("remove message %s", s.Messages[i].Name)
			s.Messages = append(s.Messages[:i:i], s.Messages[i+1:]...)
		case "add-message":
			fresh++
			name := fmt.Sprintf("ZzMessage%d", fresh)
			mt := fmt.Sprintf("Z%d", fresh)
			src := s.Messages[op.A%len(s.Messages)]
			var ms []*schema.Member
			for i, m := range src.Members {
				if i%2 == op.B%2 {
					cp := *m
					ms = append(ms, cloneMember(&cp))
				}
			}
			s.Messages = append(s.Messages, &schema.Container{Name: name, MsgType: mt, MsgCat: "app", Members: ms})
			note("add message %s (msgtype %s) with %d members taken from %s", name, mt, len(ms), src.Name)
		case "toggle-required":
			h := hs[op.A%len(hs)]
			if len(*h.members) == 0 {
				skip(op, "empty container")
				continue
			}
			m := (*h.members)[op.B%len(*h.members)]
			m.Required = !m.Required
			note("set required=%v on %s %s of %s", m.Required, m.Kind, m.Name, h.label)
		case "framing-named-member-in-group":
			// a repeating group that lists a field named like one of the framing fields (a dictionary may well
			// carry MsgType inside a group, e.g. RefMsgType's neighbours): in a group it is a member like any other
			var groups []holder
			for _, h := range hs {
				if h.isGroup && len(*h.members) > 0 {
					groups = append(groups, h)
				}
			}
			name := []string{"MsgType", "BodyLength", "CheckSum", "BeginString"}[op.B%4]
			if len(groups) == 0 || s.Field(name) == nil {
				skip(op, "no group or no such field")
				continue
			}
			h := groups[op.A%len(groups)]
			dup := false
			for _, m := range *h.members {
				dup = dup || m.Name == name
			}
			if dup {
				skip(op, "already there")
				continue
			}
			pos := 1 + op.C%len(*h.members)
			*h.members = append((*h.members)[:pos:pos], append([]*schema.Member{{Kind: "field", Name: name, Required: false}}, (*h.members)[pos:]...)...)
			note("add field %s to group %s at %d", name, h.label, pos)
		case "odd-required-attribute":
			// a member whose required attribute is missing or spelled some other way than Y / N: only Y means required
			h := hs[op.A%len(hs)]
			if len(*h.members) == 0 {
				skip(op, "empty container")
				continue
			}
			m := (*h.members)[op.B%len(*h.members)]
			if h.label == "header" || h.label == "trailer" {
				switch m.Name {
				case "SenderCompID", "TargetCompID", "MsgSeqNum", "SendingTime", "BeginString", "BodyLength", "MsgType", "CheckSum":
					skip(op, "session field "+m.Name)
					continue
				}
			}
			m.ReqAttr = []string{"absent", "y", "YES", "true", "1", "n", "absent", "O"}[op.C%8]
			m.Required = false
			note("required attribute of %s %s in %s: %s", m.Kind, m.Name, h.label, m.ReqAttr)
		case "optional-session-field":
			// a dictionary that marks one of the fields the session layer needs (they must be PRESENT in the
			// header / trailer) as optional: the constructor of the component takes the required members only
			var cand []*schema.Member
			for _, m := range s.Header.Members {
				switch m.Name {
				case "SenderCompID", "TargetCompID", "MsgSeqNum", "SendingTime":
					if m.Required {
						cand = append(cand, m)
					}
				}
			}
			if len(cand) == 0 {
				skip(op, "no required session field left in the header")
				continue
			}
			m := cand[op.A%len(cand)]
			m.Required = false
			note("header field %s marked required='N'", m.Name)
		case "change-field-type":
			f := s.Fields[op.A%len(s.Fields)]
			if protectedFields[f.Name] || isGroupName(s, f.Name) {
				skip(op, "protected or count field "+f.Name)
				continue
			}
			to := fixTypesForNew[op.B%len(fixTypesForNew)]
			note("change type of field %s from %s to %s", f.Name, f.Type, to)
			f.Type = to
		case "change-type-mapping":
			prot := protectedTypes(s)
			prot["NUMINGROUP"] = true
			i := op.A % len(tm.Entries)
			e := tm.Entries[i]
			if prot[e.Name] {
				skip(op, "type "+e.Name+" is used by a protected field")
				continue
			}
			to := castChoices[op.B%len(castChoices)]
			// every entry of that name (the shipped file has a duplicate line)
			for j := range tm.Entries {
				if tm.Entries[j].Name == e.Name {
					tm.Entries[j].Cast = to
				}
			}
			note("map FIX type %s to %s (was %s)", e.Name, to, e.Cast)
		case "add-enum-values":
			f := s.Fields[op.A%len(s.Fields)]
			if protectedFields[f.Name] || isGroupName(s, f.Name) {
				skip(op, "protected or count field "+f.Name)
				continue
			}
			f.Values = append(f.Values, schema.EnumVal{Enum: fmt.Sprint("v", op.B%7), Description: fmt.Sprintf("HARNESS_VALUE_%d", len(f.Values))})
			note("add an enumerated value to field %s", f.Name)
		case "add-group":
			fresh++
			gname := fmt.Sprintf("NoZzGroup%d", fresh)
			num := strconv.Itoa(maxFieldNumber(s) + 1)
			s.Fields = append(s.Fields, &schema.FieldDef{Number: num, Name: gname, Type: "NUMINGROUP"})
			var ms []*schema.Member
			for k := 0; k < 1+op.C%3; k++ {
				fresh++
				fname := fmt.Sprintf("ZzInGroup%d", fresh)
				s.Fields = append(s.Fields, &schema.FieldDef{Number: strconv.Itoa(maxFieldNumber(s) + 1), Name: fname, Type: fixTypesForNew[(op.C+k)%len(fixTypesForNew)]})
				ms = append(ms, &schema.Member{Kind: "field", Name: fname, Required: k == 0})
			}
			h := hs[op.A%len(hs)]
			pos := op.B % (len(*h.members) + 1)
			g := &schema.Member{Kind: "group", Name: gname, Required: op.C%2 == 0, Members: ms}
			*h.members = append((*h.members)[:pos:pos], append([]*schema.Member{g}, (*h.members)[pos:]...)...)
			note("add group %s (#%s, %d fields) to %s at %d", gname, num, len(ms), h.label, pos)
		case "move-framing-field":
			// BeginString / BodyLength / MsgType (header) or CheckSum (trailer) listed at another position:
			// the generator leaves them out of the emitted component wherever they stand
			target := s.Header
			if op.A%4 == 3 {
				target = s.Trailer
			}
			from := -1
			k := op.A % 4
			seen := 0
			for i, m := range target.Members {
				if m.Kind == "field" && schema.Framing[m.Name] {
					if seen == k%3 || target == s.Trailer {
						from = i
						break
					}
					seen++
				}
			}
			if from < 0 || len(target.Members) < 2 {
				skip(op, "no framing field to move")
				continue
			}
			m := target.Members[from]
			rest := append(append([]*schema.Member{}, target.Members[:from]...), target.Members[from+1:]...)
			to := op.B % (len(rest) + 1)
			target.Members = append(rest[:to:to], append([]*schema.Member{m}, rest[to:]...)...)
			note("move framing field %s of the %s from position %d to %d", m.Name, target.Name, from, to)
		case "add-nested-groups":
			// group > group > group (> group), all with fresh names, in one step
			depth := 2 + op.C%3
			var build func(level int) *schema.Member
			build = func(level int) *schema.Member {
				fresh++
				gname := fmt.Sprintf("NoZzNest%dL%d", fresh, level)
				s.Fields = append(s.Fields, &schema.FieldDef{Number: strconv.Itoa(maxFieldNumber(s) + 1), Name: gname, Type: "NUMINGROUP"})
				fresh++
				fname := fmt.Sprintf("ZzNestField%d", fresh)
				s.Fields = append(s.Fields, &schema.FieldDef{Number: strconv.Itoa(maxFieldNumber(s) + 1), Name: fname, Type: fixTypesForNew[(op.C+level)%len(fixTypesForNew)]})
				g := &schema.Member{Kind: "group", Name: gname, Required: level%2 == 0, Members: []*schema.Member{{Kind: "field", Name: fname, Required: true}}}
				if level < depth {
					g.Members = append(g.Members, build(level+1))
				}
				return g
			}
			g := build(1)
			h := hs[op.A%len(hs)]
			pos := op.B % (len(*h.members) + 1)
			*h.members = append((*h.members)[:pos:pos], append([]*schema.Member{g}, (*h.members)[pos:]...)...)
			note("add %d directly nested groups (%s ...) to %s at %d", depth, g.Name, h.label, pos)
		case "add-time-field":
			// a FIX type mapped to the Go type Time, and a field of it placed directly in a
			// message, the header, the trailer, a component or a group: the file that gets it
			// needs the time package
			prot := protectedTypes(s)
			var free []int
			for j, e := range tm.Entries {
				if !prot[e.Name] && e.Name != "NUMINGROUP" {
					free = append(free, j)
				}
			}
			if len(free) == 0 {
				skip(op, "no unprotected FIX type")
				continue
			}
			tname := tm.Entries[free[op.A%len(free)]].Name
			cast := "Time"
			if op.A%3 == 2 {
				cast = "Raw" // the other cast no shipped mapping uses
			}
			for j := range tm.Entries {
				if tm.Entries[j].Name == tname {
					tm.Entries[j].Cast = cast
				}
			}
			fresh++
			fname := fmt.Sprintf("ZzWhen%d", fresh)
			s.Fields = append(s.Fields, &schema.FieldDef{Number: strconv.Itoa(maxFieldNumber(s) + 1), Name: fname, Type: tname})
			h := hs[op.B%len(hs)]
			pos := op.C % (len(*h.members) + 1)
			*h.members = append((*h.members)[:pos:pos], append([]*schema.Member{{Kind: "field", Name: fname, Required: op.C%2 == 0}}, (*h.members)[pos:]...)...)
			note("map FIX type %s to %s and add field %s of that type to %s at %d", tname, cast, fname, h.label, pos)
		case "type-named-like-enum-field", "enum-of-unmapped-type":
			// dictionaries in the FIX-repository spelling name data types like fields (field Currency of
			// type Currency), and dictionaries newer than the mapping type their enumerations with names
			// the mapping has never heard of: an enumeration is a String whatever its type says, every
			// other field follows the mapping
			var enums []*schema.FieldDef
			for _, f := range s.Fields {
				if cast, _ := tm.Cast(f.Type); len(f.Values) > 0 && cast != "Bool" && !protectedFields[f.Name] && !isGroupName(s, f.Name) {
					enums = append(enums, f)
				}
			}
			if len(enums) == 0 {
				skip(op, "no enumerated field")
				continue
			}
			e := enums[op.A%len(enums)]
			if op.Kind == "enum-of-unmapped-type" {
				fresh++
				e.Type = fmt.Sprintf("ZZUNMAPPED%d", fresh)
				note("enumerated field %s gets the data type %s, which the mapping does not list", e.Name, e.Type)
				break
			}
			if _, taken := tm.Cast(e.Name); taken {
				skip(op, "a data type named "+e.Name+" exists already")
				continue
			}
			cast := []string{"String", "Int", "Float", "String"}[op.B%4]
			tm.Entries = append(tm.Entries, schema.TypeEntry{Name: e.Name, Cast: cast})
			if op.C%2 == 0 {
				e.Type = e.Name
			}
			fresh++
			fname := fmt.Sprintf("ZzNamesake%d", fresh)
			s.Fields = append(s.Fields, &schema.FieldDef{Number: strconv.Itoa(maxFieldNumber(s) + 1), Name: fname, Type: e.Name})
			h := hs[op.B%len(hs)]
			pos := op.C % (len(*h.members) + 1)
			*h.members = append((*h.members)[:pos:pos], append([]*schema.Member{{Kind: "field", Name: fname, Required: op.C%3 == 0}}, (*h.members)[pos:]...)...)
			note("data type %s (-> %s), named like the enumerated field %s; plain field %s of that type added to %s at %d", e.Name, cast, e.Name, fname, h.label, pos)
		case "change-version":
			// another protocol version: major and minor differ from each other
			v := [][2]string{{"4", "2"}, {"5", "0"}, {"4", "3"}, {"4", "0"}, {"1", "1"}, {"10", "2"}}[op.A%6]
			s.Major, s.Minor = v[0], v[1]
			note("schema version %s.%s", s.Major, s.Minor)
		case "same-group-in-components":
			// 2-4 new components that each declare a repeating group of the SAME name with
			// different members (what the big shipped schema does in its messages): which
			// definition the one emitted Go type follows must not depend on anything but the schema
			fresh++
			gname := fmt.Sprintf("NoZzShared%d", fresh)
			s.Fields = append(s.Fields, &schema.FieldDef{Number: strconv.Itoa(maxFieldNumber(s) + 1), Name: gname, Type: "NUMINGROUP"})
			var pool []string
			k := 2 + op.C%3
			for j := 0; j < k; j++ {
				fresh++
				fname := fmt.Sprintf("ZzSharedField%d", fresh)
				s.Fields = append(s.Fields, &schema.FieldDef{Number: strconv.Itoa(maxFieldNumber(s) + 1), Name: fname, Type: fixTypesForNew[(op.C+j)%len(fixTypesForNew)]})
				pool = append(pool, fname)
			}
			var cand []holder
			for _, h := range hs {
				if h.label != "header" && h.label != "trailer" && !h.isGroup {
					cand = append(cand, h)
				}
			}
			for j := 0; j < k; j++ {
				fresh++
				cname := fmt.Sprintf("ZzSharing%d", fresh)
				var gm []*schema.Member
				for _, fname := range pool[:j+1] { // the j-th component's group has j+1 fields
					gm = append(gm, &schema.Member{Kind: "field", Name: fname, Required: len(gm) == 0})
				}
				s.Components = append(s.Components, &schema.Container{Name: cname, Members: []*schema.Member{{Kind: "group", Name: gname, Required: false, Members: gm}}})
				h := cand[(op.A+j)%len(cand)]
				pos := (op.B + j) % (len(*h.members) + 1)
				*h.members = append((*h.members)[:pos:pos], append([]*schema.Member{{Kind: "component", Name: cname}}, (*h.members)[pos:]...)...)
			}
			note("add %d components that each declare group %s with 1..%d fields", k, gname, k)
		case "add-component":
			fresh++
			cname := fmt.Sprintf("ZzComponent%d", fresh)
			var ms []*schema.Member
			for k := 0; k < 1+op.C%3; k++ {
				fresh++
				fname := fmt.Sprintf("ZzInComp%d", fresh)
				s.Fields = append(s.Fields, &schema.FieldDef{Number: strconv.Itoa(maxFieldNumber(s) + 1), Name: fname, Type: fixTypesForNew[(op.C+k)%len(fixTypesForNew)]})
				ms = append(ms, &schema.Member{Kind: "field", Name: fname, Required: k%2 == 0})
			}
			s.Components = append(s.Components, &schema.Container{Name: cname, Members: ms})
			// referenced from a message or a group of a message (not header/trailer)
			var cand []holder
			for _, h := range hs {
				if h.label != "header" && h.label != "trailer" {
					cand = append(cand, h)
				}
			}
			h := cand[op.A%len(cand)]
			pos := op.B % (len(*h.members) + 1)
			m := &schema.Member{Kind: "component", Name: cname, Required: op.C%2 == 1}
			*h.members = append((*h.members)[:pos:pos], append([]*schema.Member{m}, (*h.members)[pos:]...)...)
			note("add component %s (%d fields), referenced from %s at %d", cname, len(ms), h.label, pos)
		case "remove-component":
			if len(s.Components) == 0 {
				skip(op, "no component")
				continue
			}
			i := op.A % len(s.Components)
			name := s.Components[i].Name
			s.Components = append(s.Components[:i:i], s.Components[i+1:]...)
			for _, h := range holders(s) {
				*h.members = dropComponentRefs(*h.members, name)
			}
			// groups that became empty get their first field back
			for _, h := range holders(s) {
				if h.isGroup && len(*h.members) == 0 {
					fresh++
					fname := fmt.Sprintf("ZzFiller%d", fresh)
					s.Fields = append(s.Fields, &schema.FieldDef{Number: strconv.Itoa(maxFieldNumber(s) + 1), Name: fname, Type: "STRING"})
					*h.members = append(*h.members, &schema.Member{Kind: "field", Name: fname})
				}
			}
			note("remove component %s and every reference to it", name)
		case "reorder-messages":
			if len(s.Messages) < 2 {
				skip(op, "one message")
				continue
			}
			i := op.A % (len(s.Messages) - 1)
			s.Messages[i], s.Messages[i+1] = s.Messages[i+1], s.Messages[i]
			note("swap messages %s and %s", s.Messages[i].Name, s.Messages[i+1].Name)
		case "duplicate-field-number":
			a := s.Fields[op.A%len(s.Fields)]
			b := s.Fields[op.B%len(s.Fields)]
			if a == b || a.Number == b.Number {
				skip(op, "same field")
				continue
			}
			b.Number = a.Number
			mustReject = true
			note("give field %s the number %s of field %s (must be rejected)", b.Name, a.Number, a.Name)
		case "duplicate-msgtype":
			if len(s.Messages) < 2 {
				skip(op, "one message")
				continue
			}
			a := s.Messages[op.A%len(s.Messages)]
			b := s.Messages[op.B%len(s.Messages)]
			if a == b || a.MsgType == b.MsgType {
				skip(op, "same message")
				continue
			}
			b.MsgType = a.MsgType
			mustReject = true
			note("give message %s the msgtype %s of message %s (must be rejected)", b.Name, a.MsgType, a.Name)
		}
	}
	if mustReject && !hasDuplicate(s) {
		// a later mutation removed one of the two definitions that clashed
		mustReject = false
		log = append(log, "(the planted duplicate is gone again)")
	}
	return
}

// hasDuplicate: two field definitions with one number, or two messages with one MsgType.
func hasDuplicate(s *schema.Schema) bool {
	nums := map[string]bool{}
	for _, f := range s.Fields {
		if nums[f.Number] {
			return true
		}
		nums[f.Number] = true
	}
	types := map[string]bool{}
	for _, m := range s.Messages {
		if types[m.MsgType] {
			return true
		}
		types[m.MsgType] = true
	}
	return false
}

func cloneMember(m *schema.Member) *schema.Member {
	out := &schema.Member{Kind: m.Kind, Name: m.Name, Required: m.Required}
	for _, c := range m.Members {
		out.Members = append(out.Members, cloneMember(c))
	}
	return out
}
