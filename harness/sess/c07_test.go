package sess

import (
	"bytes"
	"fmt"
	"testing"

	"github.com/b2broker/simplefix-go/storages/memory"
	"pgregory.net/rapid"

	"verif/harness/evid"
	"verif/harness/pbt"
	"verif/harness/rig"
)

// ---------- C07: nothing but Logon, Logout, Reject to a peer that has not logged on ----------

type C07Case struct {
	Prior *Script `json:"prior,omitempty"` // an earlier, logged-on session on the same store
	B     Script  `json:"b"`
}

func genC07(t *rapid.T) *C07Case {
	c := &C07Case{}
	if rapid.IntRange(0, 9).Draw(t, "withPrior") < 6 {
		cfg := genCfg(t, "acceptor")
		cfg.Approve = "all"
		g := &hgen{t: t, cfg: cfg, inSeq: 1}
		p := &Script{Cfg: cfg}
		p.Steps = append(p.Steps, rig.Step{Op: "in", In: g.goodLogon(0)})
		n := rapid.IntRange(1, 8).Draw(t, "priorSteps")
		for i := 0; i < n; i++ {
			if rapid.Bool().Draw(t, "priorKind") {
				p.Steps = append(p.Steps, rig.Step{Op: "send", ID: fmt.Sprintf("SECRET-%d", i)})
			} else {
				p.Steps = append(p.Steps, rig.Step{Op: "in", In: g.testRequest(fmt.Sprintf("PRIVATE-%d", i))})
			}
		}
		p.MaxHB = g.maxHB
		c.Prior = p
	}
	b := genHistory(t, HistKnobs{NoGoodLogon: true, Local: false, LocalLogout: true, LongAdvance: true, MaxSteps: 25})
	// resend ranges were drawn relative to a guess; bias them to the prior's numbers
	if c.Prior != nil {
		last := len(c.Prior.Steps) + 1
		for i := range b.Steps {
			st := &b.Steps[i]
			if st.Op == "in" && st.In.Type == rig.TResendRequest && st.In.Damage == "" && rapid.IntRange(0, 9).Draw(t, "retarget") < 7 {
				bg := rapid.IntRange(1, last).Draw(t, "rb")
				en := rapid.SampledFrom([]int{0, bg, last, rapid.IntRange(bg, last).Draw(t, "re")}).Draw(t, "reKind")
				st.In.Fields = []rig.Tok{rig.F(rig.TagBeginSeqNo, itoa(bg)), rig.F(rig.TagEndSeqNo, itoa(en))}
			}
		}
	}
	c.B = *b
	return c
}

func checkC07(c *C07Case, rec *evid.Rec) (vs []pbt.Violation) {
	inner := memory.NewStorage()
	var stored [][]byte
	if c.Prior != nil {
		tr := rig.RunDirect(outerT, c.Prior.Cfg, c.Prior.Steps, &rig.Hooks{Inner: inner}, c.Prior.MaxHB)
		if tr.Trouble != "" {
			return []pbt.Violation{pbt.V("harness", "prior session: %s", tr.Trouble)}
		}
		for _, r := range append([]rig.StepRes{tr.Setup}, tr.Steps...) {
			for _, o := range r.Out {
				stored = append(stored, o.Raw)
			}
		}
	}
	tr := rig.RunDirect(outerT, c.B.Cfg, c.B.Steps, &rig.Hooks{Inner: inner}, c.B.MaxHB)
	if tr.Trouble != "" {
		return []pbt.Violation{pbt.V("harness", "%s", tr.Trouble)}
	}
	if tr.RunPanic != "" {
		return []pbt.Violation{pbt.V("inbound-panic", "handler.Run panicked: %s", tr.RunPanic)}
	}
	all := append([]rig.StepRes{tr.Setup}, tr.Steps...)
	all = append(all, tr.Teardown)
	var advanced int64
	intersects := false
	abstract := c.B.Cfg.Role + fmt.Sprint(len(stored))
	for i, r := range all {
		var st *rig.Step
		if i >= 1 && i <= len(c.B.Steps) {
			st = &c.B.Steps[i-1]
			abstract += "|" + st.Op
			if st.Op == "in" {
				abstract += st.In.Type + st.In.Damage
			}
			if st.Op == "advance" {
				advanced += st.Dt
			}
			if st.Op == "in" && st.In.Type == rig.TResendRequest && st.In.Damage == "" && len(stored) > 0 {
				b, e := atoi(st.In.Fields[0].Val), atoi(st.In.Fields[1].Val)
				if b >= 1 && b <= len(stored) && (e == 0 || e >= b) {
					intersects = true
				}
			}
		}
		if r.Logged {
			vs = append(vs, pbt.V("logged-without-logon", "step %d: IsLogged is true in a history without an acceptable Logon", i-1))
		}
		for _, o := range r.Out {
			what := "setup"
			if st != nil {
				what = showStep(st)
			}
			if o.Type != rig.TLogon && o.Type != rig.TLogout && o.Type != rig.TReject {
				key := "sent-before-logon:" + o.Type
				if st != nil && st.Op == "in" {
					key += ":on:" + st.In.Type
				} else if st != nil {
					key += ":on:" + st.Op
				}
				vs = append(vs, pbt.V(key, "a message of type %q was sent to a peer that has not logged on (after %s): %s", o.Type, what, o.String()))
			}
			for _, sb := range stored {
				if bytes.Equal(sb, o.Raw) {
					vs = append(vs, pbt.V("leaked-stored-message", "a message stored by another session was sent to a peer that has not logged on (after %s): %s", what, o.String()))
				}
			}
		}
		if len(vs) > 0 {
			break
		}
	}
	nontrivial := (len(stored) > 0 && intersects) || advanced >= int64(c.B.Cfg.HBMax)*1e9
	rec.Case(evid.FPs(abstract), nontrivial)
	rec.Hist("role:" + c.B.Cfg.Role)
	if len(stored) > 0 {
		rec.Hist("store-prepopulated")
	}
	if intersects {
		rec.Hist("resend-range-intersects-store")
	}
	for i, st := range c.B.Steps {
		if st.Op == "logout" || st.Op == "stop" {
			rec.Hist("local-" + st.Op + "-before-any-logon")
			for _, later := range c.B.Steps[i+1:] {
				if later.Op == "in" && later.In.Type == rig.TResendRequest && later.In.Damage == "" {
					rec.Hist("resend-request-after-local-logout")
					break
				}
			}
			break
		}
	}
	if advanced >= int64(c.B.Cfg.HBMax)*1e9 {
		rec.Hist("idle-longer-than-max-interval")
	}
	if rec.WantSample() && nontrivial {
		rec.Sample(map[string]any{"prior_session_messages": len(stored), "history": showScript(&c.B)})
	}
	return vs
}

func TestC07(t *testing.T) {
	outerT = t
	rec := evid.New("C07")
	pbt.Run(t, "C07", rec, genC07, checkC07)
}
