package sess

import (
	"fmt"
	"sort"
	"testing"
	"time"

	simplefixgo "github.com/b2broker/simplefix-go"
	"pgregory.net/rapid"

	"verif/harness/evid"
	"verif/harness/pbt"
	"verif/harness/rig"
)

// ---------- C09: a silent peer is probed, then disconnected; a live peer never is ----------

type C09Case struct {
	Script
	N       int    `json:"n"`
	Pattern string `json:"pattern"`
	// RefuseProbes: an application outgoing handler refuses every TestRequest, so
	// the probe never reaches the wire; the attempts (instants at which the handler
	// was offered a TestRequest) take the place of the probes in the oracle: a peer
	// that stays silent for a second period is disconnected all the same.
	RefuseProbes bool `json:"refuse_probes,omitempty"`
	// Relogon (acceptor): after the warm-up the peer logs out and at once logs on
	// again on the same connection; the pattern then runs in the second logon.
	Relogon bool `json:"relogon,omitempty"`
	// AfterLogout: the peer's Logout has been answered, the connection stays open
	AfterLogout bool `json:"after_logout,omitempty"`
	// LocalLogout: the application has called Logout(); the peer never answers and never says anything again
	LocalLogout bool `json:"local_logout,omitempty"`
	// RefusedRelogon (with AfterLogout, acceptor): a refused second Logon follows the logout exchange
	RefusedRelogon bool `json:"refused_relogon,omitempty"`
}

func tolT(n int) time.Duration {
	tol := n / 20
	if tol < 1 {
		tol = 1
	}
	return time.Duration(n+tol) * time.Second
}

func genC09(t *rapid.T) *C09Case {
	cfg := genCfg(t, "")
	cfg.Approve = "all"
	cfg.HBMin, cfg.HBMax = 1, 120
	n := rapid.SampledFrom(stdIntervals).Draw(t, "nStd")
	if rapid.IntRange(0, 9).Draw(t, "nKind") < 3 {
		n = rapid.IntRange(1, 120).Draw(t, "nAny")
	}
	cfg.HBInt = n
	cfg.ObserverReturnsFalse = rapid.IntRange(0, 3).Draw(t, "observerReturnsFalse") == 0
	g := &hgen{t: t, cfg: cfg, inSeq: 1}
	c := &C09Case{N: n}
	c.Cfg = cfg
	T := int64(tolT(n))
	N := int64(n) * int64(time.Second)
	add := func(s rig.Step) { c.Steps = append(c.Steps, s) }
	adv := func(dt int64) {
		if dt > 0 {
			add(rig.Step{Op: "advance", Dt: dt})
		}
	}
	anyInbound := func(lbl string) *rig.InMsg {
		switch rapid.IntRange(0, 5).Draw(t, lbl) {
		case 5:
			return &rig.InMsg{Type: rig.TSequenceReset, Seq: g.seq(), Fields: []rig.Tok{rig.F(rig.TagGapFillFlag, "Y"), rig.F(rig.TagNewSeqNo, itoa(g.inSeq+1))}}
		case 0:
			return g.heartbeat("1") // the expected answer
		case 1:
			return g.heartbeat("")
		case 2:
			return g.app()
		case 3:
			return damage(t, g.heartbeat(""))
		default:
			return g.testRequest("peer")
		}
	}
	add(rig.Step{Op: "in", In: g.goodLogon(n)})
	// a little live traffic first
	for i := rapid.IntRange(0, 3).Draw(t, "warmup"); i > 0; i-- {
		adv(rapid.Int64Range(1, N).Draw(t, "warmDt"))
		add(rig.Step{Op: "in", In: anyInbound("warm")})
	}
	if cfg.Role == "acceptor" && rapid.IntRange(0, 3).Draw(t, "relogon") == 0 {
		c.Relogon = true
		adv(rapid.Int64Range(1, N).Draw(t, "relogonDt"))
		add(rig.Step{Op: "in", In: g.logout()})
		add(rig.Step{Op: "in", In: g.goodLogon(n)})
	}
	if !c.Relogon && rapid.IntRange(0, 5).Draw(t, "afterLogout") == 0 {
		// the peer logs out (the Logout is answered) but keeps the connection open: what the
		// property says about a silent peer holds on for as long as the connection does
		c.AfterLogout = true
		adv(rapid.Int64Range(1, N).Draw(t, "logoutDt"))
		add(rig.Step{Op: "in", In: g.logout()})
		if cfg.Role == "acceptor" && rapid.IntRange(0, 2).Draw(t, "refusedRelogon") == 0 {
			// ... and tries to log on again with a Logon that is refused; then it says nothing more
			c.RefusedRelogon = true
			adv(rapid.Int64Range(1, N).Draw(t, "refusedRelogonDt"))
			add(rig.Step{Op: "in", In: g.logon(LogonSpec{HB: rapid.SampledFrom([]string{"above", "text"}).Draw(t, "refusedHB"), Method: "allowed", Creds: "good"})})
		}
	}
	if !c.Relogon && !c.AfterLogout && rapid.IntRange(0, 7).Draw(t, "localLogout") == 0 {
		c.LocalLogout = true
		adv(rapid.Int64Range(1, N/2+1).Draw(t, "localLogoutDt"))
		add(rig.Step{Op: "logout"})
	}
	eps := rapid.SampledFrom([]int64{1, int64(time.Millisecond), T / 100}).Draw(t, "eps")
	c.Pattern = rapid.SampledFrom([]string{"total-silence", "ends-just-before-T", "ends-just-after-T", "answer-in-second-period", "steady"}).Draw(t, "pattern")
	if c.AfterLogout || c.LocalLogout {
		c.Pattern = "total-silence"
	}
	switch c.Pattern {
	case "total-silence":
		adv(3*T + T/2)
	case "ends-just-before-T":
		adv(T - eps)
		add(rig.Step{Op: "in", In: anyInbound("msg")})
		adv(T - eps)
		add(rig.Step{Op: "in", In: anyInbound("msg2")})
	case "ends-just-after-T":
		adv(T + T/10 + eps) // the probe has been sent by now
		add(rig.Step{Op: "in", In: anyInbound("msg")})
		adv(N / 2)
	case "answer-in-second-period":
		adv(T + T/10) // probe sent within [T, T+T/10]
		off := rapid.SampledFrom([]int64{eps, T / 2, T - T/10 - eps}).Draw(t, "answerAt")
		adv(off)
		add(rig.Step{Op: "in", In: anyInbound("answer")})
		switch rapid.IntRange(0, 2).Draw(t, "then") {
		case 0:
			adv(T - eps) // quiet again, but not long enough for anything
		case 1:
			adv(3 * T) // silence: probe again, then disconnect
		default:
			for i := 0; i < 5; i++ {
				adv(N / 2)
				add(rig.Step{Op: "in", In: anyInbound("live")})
			}
		}
	case "steady":
		periods := rapid.IntRange(10, 40).Draw(t, "periods")
		for i := 0; i < periods; i++ {
			adv(rapid.Int64Range(1, N).Draw(t, "steadyDt"))
			add(rig.Step{Op: "in", In: anyInbound("steady")})
		}
	}
	c.MaxHB = n
	c.RefuseProbes = c.Pattern != "steady" && rapid.IntRange(0, 4).Draw(t, "refuseProbes") == 0
	return c
}

func checkC09(c *C09Case, rec *evid.Rec) (vs []pbt.Violation) {
	var hooks *rig.Hooks
	if c.RefuseProbes {
		hooks = &rig.Hooks{BeforeRun: func(h *simplefixgo.DefaultHandler, log *rig.EventLog) {
			h.HandleOutgoing(rig.TTestRequest, func(msg simplefixgo.SendingMessage) bool {
				log.Add(rig.Event{Kind: "probe-refused"})
				return false
			})
		}}
	}
	tr := rig.RunDirect(outerT, c.Cfg, c.Steps, hooks, c.MaxHB)
	if tr.Trouble != "" {
		return []pbt.Violation{pbt.V("harness", "%s", tr.Trouble)}
	}
	if tr.RunPanic != "" {
		return []pbt.Violation{pbt.V("inbound-panic", "handler.Run panicked: %s", tr.RunPanic)}
	}
	T := tolT(c.N)
	slack := T/10 + time.Millisecond
	// build the timeline of inbound instants, TestRequests sent, disconnect
	type pt struct {
		at   time.Duration
		kind string // "in", "probe", "disconnect"
	}
	var line []pt
	logged := false
	var end time.Duration
	for i := range c.Steps {
		res := tr.Steps[i]
		end = res.End
		st := &c.Steps[i]
		if st.Op == "in" && res.Delivered {
			line = append(line, pt{res.At, "in"})
		}
		if !logged {
			logged = res.Logged
			continue
		}
		for _, o := range res.Out {
			if o.Type == rig.TTestRequest {
				line = append(line, pt{o.At, "probe"})
			}
		}
		for _, e := range res.Events {
			if e == "session:disconnect" {
				line = append(line, pt{res.End, "disconnect"}) // refined below from the log
			}
		}
	}
	// exact instants of the disconnect / handler stop from the event log
	var discAt, stoppedAt time.Duration = -1, -1
	for _, e := range tr.Log.Since(0) {
		if e.Kind == "event" && e.Name == "session:disconnect" && discAt < 0 {
			discAt = e.T
		}
		if e.Kind == "event" && e.Name == "handler:stopped" && stoppedAt < 0 {
			stoppedAt = e.T // may be logged before or after the disconnect event: two goroutines, same instant
		}
	}
	if c.RefuseProbes {
		for _, e := range tr.Log.Since(0) {
			if e.Kind == "probe-refused" {
				line = append(line, pt{e.T, "probe"})
			}
		}
		sort.SliceStable(line, func(i, j int) bool { return line[i].at < line[j].at })
	}
	// walk the timeline with the rule of the property
	lastIn := time.Duration(-1)
	var probes []time.Duration
	probedSinceIn := false
	nProbes := 0
	silenceSeen := false
	for _, p := range line {
		switch p.kind {
		case "in":
			lastIn = p.at
			probedSinceIn = false
		case "probe":
			nProbes++
			probes = append(probes, p.at)
			if lastIn >= 0 && p.at < lastIn+T {
				vs = append(vs, pbt.V("probe-too-early", "N=%ds T=%v: TestRequest at %v although the peer was last heard at %v", c.N, T, p.at, lastIn))
			}
			probedSinceIn = true
		}
	}
	_ = probedSinceIn
	// required probes / disconnects: simulate
	{
		u := time.Duration(-1) // last inbound instant
		var ins []time.Duration
		for _, p := range line {
			if p.kind == "in" {
				ins = append(ins, p.at)
			}
		}
		if len(ins) > 0 {
			u = ins[0]
		}
		for k, at := range ins {
			next := end
			if k+1 < len(ins) {
				next = ins[k+1]
			}
			if discAt >= 0 && at > discAt {
				break
			}
			u = at
			quiet := next - u
			if quiet > T+slack {
				silenceSeen = true
				// a probe must have been sent in [u+T, u+T+T/10]
				found := time.Duration(-1)
				for _, pa := range probes {
					if pa >= u+T && pa <= u+T+slack {
						found = pa
					}
				}
				if found < 0 {
					vs = append(vs, pbt.V("no-probe", "N=%ds T=%v: peer silent from %v to %v, no TestRequest in [%v,%v] (TestRequests at %v)", c.N, T, u, next, u+T, u+T+slack, probes))
					break
				}
				// exactly one probe before the (possible) disconnect deadline
				if next-found > T+slack {
					// nothing arrived for another T: disconnect within [T, T+T/10] of the probe
					if discAt < 0 || discAt < found+T || discAt > found+T+slack {
						vs = append(vs, pbt.V("no-disconnect", "N=%ds T=%v: TestRequest at %v unanswered until %v: disconnect event at %v, required in [%v,%v]", c.N, T, found, next, discAt, found+T, found+T+slack))
						break
					}
					if stoppedAt < discAt || stoppedAt > discAt+time.Millisecond {
						vs = append(vs, pbt.V("handler-not-stopped", "the disconnect event at %v did not stop the handler (stopped at %v)", discAt, stoppedAt))
					}
				}
			}
		}
		_ = u
	}
	// a disconnect is only allowed after an unanswered probe
	if discAt >= 0 && len(vs) == 0 {
		ok := false
		for _, pa := range probes {
			if discAt >= pa+T {
				// nothing inbound in (pa, discAt)
				clean := true
				for _, p := range line {
					if p.kind == "in" && p.at > pa && p.at < discAt {
						clean = false
					}
				}
				if clean {
					ok = true
				}
			}
		}
		if !ok {
			vs = append(vs, pbt.V("disconnected-live-peer", "N=%ds T=%v: disconnect at %v although the peer had sent something within the period (TestRequests at %v)", c.N, T, discAt, probes))
		}
	}
	if c.Pattern == "steady" && (nProbes > 0 || discAt >= 0) && len(vs) == 0 {
		vs = append(vs, pbt.V("probed-live-peer", "N=%ds: a peer sending at least every N seconds was sent %d TestRequest(s), disconnect at %v", c.N, nProbes, discAt))
	}
	nontrivial := silenceSeen || c.Pattern == "steady"
	rec.Case(evid.FPs(fmt.Sprintf("%s|%d|%s|%d|%d|%v", c.Cfg.Role, c.N, c.Pattern, len(c.Steps), nProbes, discAt >= 0)), nontrivial)
	rec.Hist("pattern:" + c.Pattern)
	rec.Hist("role:" + c.Cfg.Role)
	if discAt >= 0 {
		rec.Hist("disconnected")
	}
	if nProbes > 0 {
		rec.Hist("probed")
	}
	if c.Relogon {
		rec.Hist("second-logon-on-the-connection")
	}
	if c.AfterLogout {
		rec.Hist("silence-after-a-logout-exchange")
	}
	if c.LocalLogout {
		rec.Hist("silence-after-an-unanswered-local-logout")
	}
	if c.RefusedRelogon {
		rec.Hist("silence-after-a-refused-second-logon")
	}
	if c.RefuseProbes && nProbes > 0 {
		rec.Hist("probe-refused-by-application-handler")
	}
	if rec.WantSample() && nontrivial {
		var tl []string
		for _, p := range line {
			tl = append(tl, fmt.Sprintf("%v:%s", p.at, p.kind))
			if len(tl) > 30 {
				break
			}
		}
		rec.Sample(map[string]any{"N": c.N, "T": T.String(), "pattern": c.Pattern, "role": c.Cfg.Role, "timeline": tl, "disconnect_at": discAt.String()})
	}
	return vs
}

func TestC09(t *testing.T) {
	outerT = t
	rec := evid.New("C09")
	pbt.Run(t, "C09", rec, genC09, checkC09)
}
