package sess

import (
	"context"
	"fmt"
	"sync"
	"testing"
	"time"

	simplefixgo "github.com/b2broker/simplefix-go"
	"github.com/b2broker/simplefix-go/fix"
	"github.com/b2broker/simplefix-go/session"
	"github.com/b2broker/simplefix-go/storages/memory"
	"pgregory.net/rapid"

	"verif/harness/evid"
	"verif/harness/pbt"
	"verif/harness/rig"
)

// ---------- C05 (sending time taken at send time), in real time ----------
//
// The bubble-based engine of C05 cannot let virtual time pass while a sender
// waits for the session's mutex (a goroutine queued on a mutex is not durably
// blocked, so the bubble's clock stops). A SendingTime taken before that wait
// is stale by the time the message gets its number and leaves. This engine
// therefore runs outside a bubble, on the real clock: a counter store with
// real latency (0.5-4 ms per call), 2-6 sender goroutines. The oracle needs no
// timing assumption: the instant a message's number was requested from the
// counter store (recorded by the store wrapper on entry, per number handed
// out) cannot be later than the instant its SendingTime was taken "at send
// time", because the send of a message begins with obtaining its number; and
// the SendingTime cannot be later than the instant the bytes were captured.
// Both bounds are instants of the same process clock, compared at the
// millisecond granularity of the field.

type C05ClockCase struct {
	Role     string    `json:"role"`
	Buf      int       `json:"buf"`
	DelaysUs []int     `json:"delays_us"` // latency of the counter store's calls, cycled
	Senders  [][]int64 `json:"senders"`   // per sender: real pause (µs) before each send
}

func genC05Clock(t *rapid.T) *C05ClockCase {
	c := &C05ClockCase{
		Role: rapid.SampledFrom([]string{"acceptor", "initiator"}).Draw(t, "role"),
		Buf:  rapid.SampledFrom([]int{0, 1, 10}).Draw(t, "buf"),
	}
	for i := rapid.IntRange(1, 4).Draw(t, "nDelays"); i > 0; i-- {
		c.DelaysUs = append(c.DelaysUs, rapid.SampledFrom([]int{500, 2000, 2000, 3000, 4000}).Draw(t, "delayUs"))
	}
	g := rapid.IntRange(2, 6).Draw(t, "senders")
	for i := 0; i < g; i++ {
		var ps []int64
		for j := rapid.IntRange(1, 4).Draw(t, "perSender"); j > 0; j-- {
			ps = append(ps, rapid.SampledFrom([]int64{0, 0, 100, 1000, 3000}).Draw(t, "pauseUs"))
		}
		c.Senders = append(c.Senders, ps)
	}
	return c
}

// clockStore is the bundled memory store with real latency; it records, per
// outgoing number handed out, the instant the call that produced it began.
type clockStore struct {
	*memory.Storage
	mu      sync.Mutex
	n       int
	delays  []int
	entered map[int]time.Time
}

func (s *clockStore) GetNextSeqNum(id fix.StorageID) (int, error) {
	at := time.Now()
	s.mu.Lock()
	d := s.delays[s.n%len(s.delays)]
	s.n++
	s.mu.Unlock()
	time.Sleep(time.Duration(d) * time.Microsecond)
	n, err := s.Storage.GetNextSeqNum(id)
	if err == nil && id.Side == fix.Outgoing {
		s.mu.Lock()
		s.entered[n] = at
		s.mu.Unlock()
	}
	return n, err
}

func checkC05Clock(c *C05ClockCase, rec *evid.Rec) (vs []pbt.Violation) {
	done := pbt.Watch("C05", "TestC05Clock", c)
	defer done()
	store := &clockStore{Storage: memory.NewStorage(), delays: c.DelaysUs, entered: map[int]time.Time{}}
	var h interface {
		simplefixgo.AcceptorHandler
		Run() error
		Outgoing() <-chan []byte
		ServeIncoming([]byte)
		Stop()
	}
	ctx, cancel := context.WithCancel(context.Background())
	defer cancel()
	if c.Role == "acceptor" {
		h = simplefixgo.NewAcceptorHandler(ctx, rig.TagMsgType, c.Buf)
	} else {
		h = simplefixgo.NewInitiatorHandler(ctx, rig.TagMsgType, c.Buf)
	}
	type wire struct {
		b  []byte
		at time.Time
	}
	var wmu sync.Mutex
	var wires []wire
	stopDrain := make(chan struct{})
	drainDone := make(chan struct{})
	go func() {
		defer close(drainDone)
		for {
			select {
			case b := <-h.Outgoing():
				at := time.Now()
				wmu.Lock()
				wires = append(wires, wire{append([]byte(nil), b...), at})
				wmu.Unlock()
			case <-stopDrain:
				return
			}
		}
	}()
	var s *session.Session
	var err error
	methods := []string{"0"}
	if c.Role == "acceptor" {
		s, err = session.NewAcceptorSession(rig.Opts(methods), h,
			&session.LogonSettings{LogonTimeout: 30 * time.Second, CloseTimeout: time.Second, HeartBtLimits: &session.IntLimits{Min: 1, Max: 60}},
			func(*session.LogonSettings) error { return nil }, store, store)
	} else {
		s, err = session.NewInitiatorSession(h, rig.Opts(methods),
			&session.LogonSettings{TargetCompID: "PEER", SenderCompID: "LIB", HeartBtInt: 30, EncryptMethod: "0", Username: "alice", Password: "secret",
				CloseTimeout: time.Second, LogonTimeout: 30 * time.Second}, store, store)
	}
	if err != nil {
		return []pbt.Violation{pbt.V("harness", "session constructor: %v", err)}
	}
	runDone := make(chan struct{})
	go func() { defer close(runDone); _ = h.Run() }()
	if err := s.Run(); err != nil {
		return []pbt.Violation{pbt.V("harness", "Session.Run: %v", err)}
	}
	logon := &rig.InMsg{Type: rig.TLogon, Seq: "1", Fields: []rig.Tok{rig.F(rig.TagEncryptMethod, "0"), rig.F(rig.TagHeartBtInt, "30"),
		rig.F(rig.TagUsername, "alice"), rig.F(rig.TagPassword, "secret")}}
	if c.Role == "initiator" {
		logon.Sender, logon.Target = "PEER", "LIB"
	}
	h.ServeIncoming(logon.Bytes())
	deadline := time.Now().Add(5 * time.Second)
	for !s.IsLogged() && time.Now().Before(deadline) {
		time.Sleep(200 * time.Microsecond)
	}
	if !s.IsLogged() {
		close(stopDrain)
		<-drainDone
		h.Stop()
		return []pbt.Violation{pbt.V("harness", "the session did not log on")}
	}
	type call struct{ start, end time.Time }
	var cmu sync.Mutex
	var calls []call
	var sendErrs []string
	var wg sync.WaitGroup
	for g := range c.Senders {
		g := g
		wg.Add(1)
		go func() {
			defer wg.Done()
			for k, p := range c.Senders[g] {
				if p > 0 {
					time.Sleep(time.Duration(p) * time.Microsecond)
				}
				st := time.Now()
				err := s.Send(rig.NewApp(fmt.Sprintf("g%d-%d", g, k)))
				en := time.Now()
				cmu.Lock()
				calls = append(calls, call{st, en})
				if err != nil {
					sendErrs = append(sendErrs, err.Error())
				}
				cmu.Unlock()
			}
		}()
	}
	wg.Wait()
	total := 0
	for _, ps := range c.Senders {
		total += len(ps)
	}
	deadline = time.Now().Add(5 * time.Second)
	for time.Now().Before(deadline) {
		wmu.Lock()
		n := len(wires)
		wmu.Unlock()
		if n >= total+1 {
			break
		}
		time.Sleep(200 * time.Microsecond)
	}
	h.Stop()
	<-runDone
	cancel()
	close(stopDrain)
	<-drainDone

	if len(sendErrs) > 0 {
		return []pbt.Violation{pbt.V("harness", "send errors without any fault injected: %v", sendErrs)}
	}
	waited := 0
	for _, w := range wires {
		out := rig.Decode(w.b)
		if out.Type != rig.TMDReject {
			continue
		}
		n := atoiC(out.Seq)
		st, _ := out.Get(rig.TagSendingTime)
		tm, err := time.ParseInLocation("20060102-15:04:05.000", st, time.UTC)
		if err != nil {
			vs = append(vs, pbt.V("sending-time-format", "message #%d carries SendingTime %q: %v", n, st, err))
			continue
		}
		store.mu.Lock()
		entered, ok := store.entered[n]
		store.mu.Unlock()
		if !ok {
			vs = append(vs, pbt.V("harness", "no counter-store call produced number %d", n))
			continue
		}
		lo, hi := entered.UTC().Truncate(time.Millisecond), w.at.UTC()
		if tm.Before(lo) {
			vs = append(vs, pbt.V("sending-time-stale", "message #%d: SendingTime %s was taken before its sequence number was even requested from the counter store (%s): it is not the time of sending (%d senders, store latency %v µs)", n, st, entered.UTC().Format("15:04:05.000000"), len(c.Senders), c.DelaysUs))
		}
		if tm.After(hi) {
			vs = append(vs, pbt.V("sending-time-in-future", "message #%d: SendingTime %s is later than the instant its bytes were captured (%s)", n, st, hi.Format("15:04:05.000000")))
		}
	}
	// how many send calls had to wait for another sender's turn (started before
	// the number of another call was requested, got a later number)
	cmu.Lock()
	for _, cl := range calls {
		for _, e := range store.entered {
			if e.Sub(cl.start) > time.Millisecond && e.Before(cl.end) {
				waited++
				break
			}
		}
	}
	cmu.Unlock()
	nontrivial := waited > 0
	rec.Case(evid.FPs(fmt.Sprint(c.Role, c.Buf, c.DelaysUs, c.Senders)), nontrivial)
	rec.Hist("clock:role:" + c.Role)
	if waited > 0 {
		rec.Hist("clock:send-call-waited-for-its-turn")
	}
	rec.Hist(fmt.Sprintf("clock:senders=%d", len(c.Senders)))
	if rec.WantSample() && nontrivial {
		rec.Sample(map[string]any{"engine": "real-time clock", "role": c.Role, "senders": len(c.Senders), "store_latency_us": c.DelaysUs, "messages": total, "calls_that_waited": waited})
	}
	if len(vs) > 3 {
		vs = vs[:3]
	}
	return vs
}

func atoiC(s string) int {
	n := 0
	for _, ch := range s {
		if ch < '0' || ch > '9' {
			return -1
		}
		n = n*10 + int(ch-'0')
	}
	return n
}

func TestC05Clock(t *testing.T) {
	rec := evid.New("C05")
	pbt.Run(t, "C05", rec, genC05Clock, checkC05Clock)
}
