package sess

import (
	"testing"
	"time"

	"verif/harness/rig"
)

func TestSmokeDirect(t *testing.T) {
	for _, role := range []string{"acceptor", "initiator"} {
		cfg := rig.Cfg{Role: role, HBMin: 1, HBMax: 60, HBInt: 30, Methods: []string{"0"}, Approve: "all", CloseTimeoutMs: 1000, Buf: 0, Sender: "LIB", Target: "PEER", User: "u", Pass: "p"}
		steps := []rig.Step{
			{Op: "in", In: &rig.InMsg{Type: rig.TLogon, Seq: "1", Fields: []rig.Tok{rig.F(rig.TagEncryptMethod, "0"), rig.F(rig.TagHeartBtInt, "30"), rig.F(rig.TagUsername, "u"), rig.F(rig.TagPassword, "p")}}},
			{Op: "in", In: &rig.InMsg{Type: rig.TTestRequest, Seq: "2", Fields: []rig.Tok{rig.F(rig.TagTestReqID, "abc")}}},
			{Op: "send", ID: "app1"},
			{Op: "advance", Dt: int64(31 * time.Second)},
			{Op: "advance", Dt: int64(31 * time.Second)},
			{Op: "advance", Dt: int64(40 * time.Second)},
		}
		tr := rig.RunDirect(t, cfg, steps, nil, 60)
		t.Logf("%s: trouble=%q leak=%q runErr=%q panic=%q ctxDoneAt=%v", role, tr.Trouble, tr.Leak, tr.RunErr, tr.RunPanic, tr.CtxDoneAt)
		show := func(name string, r rig.StepRes) {
			t.Logf("  %s at=%v logged=%v events=%v ctxDone=%v runEnded=%v", name, r.At, r.Logged, r.Events, r.CtxDone, r.RunEnded)
			for _, o := range r.Out {
				t.Logf("      %v %s", o.At, o.String())
			}
		}
		show("setup", tr.Setup)
		for i, r := range tr.Steps {
			show(steps[i].Op, r)
		}
		show("teardown", tr.Teardown)
	}
}
