package sess

import (
	"fmt"
	"github.com/b2broker/simplefix-go/fix"
	"github.com/b2broker/simplefix-go/storages/memory"
	"sort"
	"testing"
	"time"

	simplefixgo "github.com/b2broker/simplefix-go"
	"github.com/b2broker/simplefix-go/session"
	"github.com/b2broker/simplefix-go/session/messages"
	"pgregory.net/rapid"

	"verif/harness/evid"
	"verif/harness/pbt"
	"verif/harness/ref"
	"verif/harness/rig"
)

// ---------- C08: a logged-on session never stays silent longer than the heartbeat interval ----------

type C08Case struct {
	Script
	N             int      `json:"n"`               // negotiated interval, seconds
	Periods       int      `json:"periods"`         // horizon in periods
	LogonAt       int64    `json:"logon_at"`        // initiator: virtual ns at which the peer's Logon arrives
	Silence       bool     `json:"silence"`         // the peer falls silent once, long enough to be probed
	N2            int      `json:"n2"`              // acceptor: after the first horizon the peer logs out and on again with this interval (0: no re-logon)
	Relogon       int      `json:"relogon"`         // index of the second Logon step
	Asked         int      `json:"asked,omitempty"` // acceptor: the interval the client asked for when the logon callback overrides it with N (0: no override)
	BadLogouts    int      `json:"bad_logouts,omitempty"`
	HookRegisters bool     `json:"hook_registers,omitempty"` // the application\'s outgoing hook registers a further outgoing hook when the first Heartbeat leaves
	PriorSends    int      `json:"prior_sends,omitempty"`    // messages an earlier session left in the message store before the application reset both counters (0: fresh stores)
	ErrCallback   bool     `json:"err_callback,omitempty"`
	RefuseHB      int      `json:"refuse_hb,omitempty"` // the application handler refuses the k-th unsolicited Heartbeat (0: none): that one is not transmitted; the timer must try again a period later
	RemoveAt      string   `json:"remove_at,omitempty"` // the application removes its own (accepting, all-types) logging handler right before this send step
	Refuse        []string `json:"refuse,omitempty"`    // application sends that an application outgoing handler (registered before the session's own) refuses: they are not transmitted, so they must not postpone the heartbeat
}

var stdIntervals = []int{1, 2, 3, 5, 10, 20, 30, 60}

// timeline builds steps from absolute instants, keeping the peer alive
// (an inbound Heartbeat at least every 0.8 N) so that no TestRequest probe
// interferes.
type timeline struct {
	g      *hgen
	steps  []rig.Step
	now    int64
	lastIn int64
	keep   int64 // keep-alive period of the peer (0: the peer is silent)
	// the peer says nothing in [silentFrom, silentTo): long enough for the
	// session to probe it, short enough not to be disconnected
	silentFrom, silentTo int64
}

func (tl *timeline) nextKeep() int64 {
	k := tl.lastIn + tl.keep
	if tl.silentTo > 0 && k >= tl.silentFrom && k < tl.silentTo {
		k = tl.silentTo
	}
	return k
}

func (tl *timeline) advanceTo(t int64) {
	for tl.now < t {
		next := t
		if tl.keep > 0 && tl.nextKeep() < next {
			next = tl.nextKeep()
		}
		if next > tl.now {
			tl.steps = append(tl.steps, rig.Step{Op: "advance", Dt: next - tl.now})
			tl.now = next
		}
		if tl.keep > 0 && tl.now >= tl.nextKeep() {
			tl.steps = append(tl.steps, rig.Step{Op: "in", In: tl.g.heartbeat("")})
			tl.lastIn = tl.now
		}
	}
}

func genC08(t *rapid.T) *C08Case {
	cfg := genCfg(t, "")
	cfg.Approve = "all"
	cfg.HBMin, cfg.HBMax = 1, 120
	n := rapid.SampledFrom(stdIntervals).Draw(t, "nStd")
	if rapid.IntRange(0, 9).Draw(t, "nKind") < 3 {
		n = rapid.IntRange(1, 120).Draw(t, "nAny")
	}
	cfg.HBInt = n
	cfg.ObserverReturnsFalse = rapid.IntRange(0, 3).Draw(t, "observerReturnsFalse") == 0
	g := &hgen{t: t, cfg: cfg, inSeq: 1}
	c := &C08Case{N: n, Periods: rapid.IntRange(3, 40).Draw(t, "periods")}
	c.Cfg = cfg
	N := int64(n) * int64(time.Second)
	tl := &timeline{g: g, keep: N * 8 / 10}
	if cfg.Role == "initiator" && rapid.Bool().Draw(t, "lateAnswer") {
		c.LogonAt = rapid.Int64Range(1, 20e9).Draw(t, "logonAt")
		tl.steps = append(tl.steps, rig.Step{Op: "advance", Dt: c.LogonAt})
		tl.now = c.LogonAt
	}
	ask := n
	if cfg.Role == "acceptor" && rapid.IntRange(0, 4).Draw(t, "callbackSetsInterval") == 0 {
		// the client asks for another interval; the application's logon callback sets N (a server policy):
		// the Logon answer and the timers both follow the callback
		if ask = rapid.IntRange(1, 120).Draw(t, "asked"); ask != n {
			c.Cfg.CallbackHB = n
			c.Asked = ask
		}
	}
	tl.steps = append(tl.steps, rig.Step{Op: "in", In: g.goodLogon(ask)})
	g.hb = n
	tl.lastIn = tl.now
	start := tl.now
	horizon := start + int64(c.Periods)*N
	// planned application sends / peer test requests at instants relative to period boundaries
	type ev struct {
		at   int64
		kind string
	}
	var evs []ev
	eps := []int64{1, int64(time.Millisecond), N / 10, N/10 - int64(time.Millisecond), N/10 + int64(time.Millisecond)}
	ne := rapid.IntRange(0, 25).Draw(t, "nEvents")
	for i := 0; i < ne; i++ {
		k := int64(rapid.IntRange(1, c.Periods).Draw(t, "period"))
		var off int64
		switch rapid.IntRange(0, 5).Draw(t, "offKind") {
		case 0:
			off = 0
		case 1:
			off = -rapid.SampledFrom(eps).Draw(t, "epsBefore")
		case 2:
			off = rapid.SampledFrom(eps).Draw(t, "epsAfter")
		default:
			off = rapid.Int64Range(-N+1, N-1).Draw(t, "offAny")
		}
		at := start + k*N + off
		if at <= start || at >= horizon {
			continue
		}
		kind := "send"
		switch rapid.IntRange(0, 9).Draw(t, "evKind") {
		case 0:
			kind = "testreq"
		case 1:
			kind = "resend" // retransmissions are outbound messages too: they postpone the heartbeat
		case 2:
			if rapid.Bool().Draw(t, "badLogout") {
				kind = "badlogout" // a Logout that fails the integrity check: rejected, the session stays logged on and keeps its rhythm
			}
		}
		evs = append(evs, ev{at, kind})
		if kind == "send" && rapid.IntRange(0, 5).Draw(t, "burst") == 0 {
			for j := 0; j < rapid.IntRange(1, 4).Draw(t, "burstN"); j++ {
				evs = append(evs, ev{at, "send"})
			}
		}
	}
	if rapid.IntRange(0, 9).Draw(t, "silence") < 3 && c.Periods >= 6 {
		T := int64(tolT(n))
		tl.silentFrom = start + N*int64(rapid.IntRange(1, c.Periods-4).Draw(t, "silentFrom"))
		tl.silentTo = tl.silentFrom + T + T/10 + rapid.Int64Range(int64(time.Millisecond), T/20).Draw(t, "silentExtra")
		c.Silence = true
	}
	sort.SliceStable(evs, func(i, j int) bool { return evs[i].at < evs[j].at })
	for i, e := range evs {
		if e.kind != "send" && tl.silentTo > 0 && e.at >= tl.silentFrom-N && e.at < tl.silentTo {
			continue // the peer is silent then
		}
		tl.advanceTo(e.at)
		if e.kind == "send" {
			id := fmt.Sprintf("app%d", i)
			if rapid.IntRange(0, 5).Draw(t, "refused") == 0 {
				c.Refuse = append(c.Refuse, id)
			}
			tl.steps = append(tl.steps, rig.Step{Op: "send", ID: id})
		} else if e.kind == "badlogout" {
			tl.steps = append(tl.steps, rig.Step{Op: "in", In: damage(t, g.logout())})
			tl.lastIn = tl.now
			c.BadLogouts++
		} else if e.kind == "resend" {
			tl.steps = append(tl.steps, rig.Step{Op: "in", In: g.resend(1, rapid.SampledFrom([]int{0, 1, 2}).Draw(t, "resendEnd"))})
			tl.lastIn = tl.now
		} else {
			tl.steps = append(tl.steps, rig.Step{Op: "in", In: g.testRequest(fmt.Sprintf("q%d", i))})
			tl.lastIn = tl.now
		}
	}
	tl.advanceTo(horizon)
	if cfg.Role == "acceptor" && !c.Silence && c.Asked == 0 && rapid.IntRange(0, 3).Draw(t, "relogon") == 0 {
		// logout handshake and a new Logon with another interval on the same connection
		c.N2 = rapid.SampledFrom([]int{1, 2, 3, 5, 10, 30}).Draw(t, "n2")
		tl.steps = append(tl.steps, rig.Step{Op: "in", In: g.logout()})
		c.Relogon = len(tl.steps)
		tl.steps = append(tl.steps, rig.Step{Op: "in", In: g.goodLogon(c.N2)})
		tl.lastIn = tl.now
		N2 := int64(c.N2) * int64(time.Second)
		tl.keep = N2 * 8 / 10
		tl.silentTo = 0
		tl.advanceTo(tl.now + N2*int64(rapid.IntRange(3, 12).Draw(t, "periods2")))
		if c.N2 > n {
			n = c.N2
		}
	}
	c.Steps = tl.steps
	c.MaxHB = n
	if rapid.IntRange(0, 5).Draw(t, "refuseHB") == 0 {
		c.RefuseHB = rapid.IntRange(1, 4).Draw(t, "refuseHBk")
		// the application has an error callback (Session.OnError) which uses the session: it reports the
		// failed send to the peer with an application message
		c.ErrCallback = rapid.Bool().Draw(t, "errCallback")
	}
	if rapid.IntRange(0, 4).Draw(t, "removesHandler") == 0 {
		var sends []string
		for _, st := range c.Steps {
			if st.Op == "send" {
				sends = append(sends, st.ID)
			}
		}
		if len(sends) > 0 {
			c.RemoveAt = rapid.SampledFrom(sends).Draw(t, "removeAt")
		}
	}
	c.HookRegisters = rapid.IntRange(0, 4).Draw(t, "hookRegisters") == 0
	if rapid.IntRange(0, 5).Draw(t, "priorDay") == 0 {
		// the stores were used by an earlier session (a few messages are still in the message store);
		// the application then started the numbering afresh (ResetSeqNum on both sides)
		c.PriorSends = rapid.IntRange(1, 8).Draw(t, "priorSends")
	}
	return c
}

func checkC08(c *C08Case, rec *evid.Rec) (vs []pbt.Violation) {
	var hooks *rig.Hooks
	var hRef *simplefixgo.DefaultHandler
	var logID int64
	if len(c.Refuse) > 0 || c.RefuseHB > 0 || c.RemoveAt != "" || c.HookRegisters {
		refuse := map[string]bool{}
		for _, id := range c.Refuse {
			refuse[id] = true
		}
		hbSeen := 0
		hooks = &rig.Hooks{BeforeRun: func(h *simplefixgo.DefaultHandler, log *rig.EventLog) {
			hRef = h
			if c.RemoveAt != "" {
				// the application's own logging handler, removed later with the id it got
				logID = h.HandleOutgoing(simplefixgo.AllMsgTypes, func(msg simplefixgo.SendingMessage) bool { return true })
			}
			h.HandleOutgoing(simplefixgo.AllMsgTypes, func(msg simplefixgo.SendingMessage) bool {
				b, err := msg.ToBytes()
				if err != nil {
					return true
				}
				if typ, _ := ref.Lookup(b, rig.TagMsgType); typ == rig.THeartbeat {
					if _, solicited := ref.Lookup(b, rig.TagTestReqID); !solicited {
						if c.HookRegisters && hbSeen == 0 {
							// the first Heartbeat that leaves makes the application install an audit hook for Heartbeats
							h.HandleOutgoing(rig.THeartbeat, func(simplefixgo.SendingMessage) bool { return true })
							log.Add(rig.Event{Kind: "hook-registered-from-a-hook"})
						}
						hbSeen++
						if hbSeen == c.RefuseHB {
							log.Add(rig.Event{Kind: "heartbeat-refused"})
							return false
						}
					}
				}
				id, _ := ref.Lookup(b, rig.TagMDReqID)
				return !refuse[id]
			})
		}}
		if c.ErrCallback {
			hooks.AfterRun = func(h *simplefixgo.DefaultHandler, s *session.Session, log *rig.EventLog) {
				s.OnError(func(err error) {
					log.Add(rig.Event{Kind: "error-callback"})
					_ = s.Send(rig.NewApp("from-error-callback"))
				})
			}
		}
		if c.RemoveAt != "" {
			hooks.AppMessage = func(st *rig.Step) messages.Message {
				if st.ID == c.RemoveAt && hRef != nil {
					_ = hRef.RemoveOutgoingHandler(simplefixgo.AllMsgTypes, logID)
				}
				return rig.NewApp(st.ID)
			}
		}
	}
	if c.PriorSends > 0 {
		inner := memory.NewStorage()
		pcfg := c.Cfg
		pcfg.CallbackHB = 0
		pg := &hgen{cfg: pcfg, inSeq: 1}
		psteps := []rig.Step{{Op: "in", In: &rig.InMsg{Type: rig.TLogon, Seq: pg.seq(), Fields: []rig.Tok{rig.F(rig.TagEncryptMethod, pcfg.Methods[0]), rig.F(rig.TagHeartBtInt, itoa(c.N)),
			rig.F(rig.TagUsername, "alice"), rig.F(rig.TagPassword, "secret")}}}}
		for i := 0; i < c.PriorSends; i++ {
			psteps = append(psteps, rig.Step{Op: "send", ID: fmt.Sprint("old-", i)})
		}
		ptr := rig.RunDirect(outerT, pcfg, psteps, &rig.Hooks{Inner: inner}, c.MaxHB)
		if ptr.Trouble != "" {
			return []pbt.Violation{pbt.V("harness", "prior session: %s", ptr.Trouble)}
		}
		_ = inner.ResetSeqNum(fix.StorageID{Side: fix.Outgoing})
		_ = inner.ResetSeqNum(fix.StorageID{Side: fix.Incoming})
		if hooks == nil {
			hooks = &rig.Hooks{}
		}
		hooks.Inner = inner
		rec.Hist("stores-reused-after-a-counter-reset")
	}
	tr := rig.RunDirect(outerT, c.Cfg, c.Steps, hooks, c.MaxHB)
	if tr.Trouble != "" {
		return []pbt.Violation{pbt.V("harness", "%s", tr.Trouble)}
	}
	if tr.RunPanic != "" {
		return []pbt.Violation{pbt.V("inbound-panic", "handler.Run panicked: %s", tr.RunPanic)}
	}
	var refusedAt []time.Duration
	for _, e := range tr.Log.Since(0) {
		if e.Kind == "heartbeat-refused" {
			refusedAt = append(refusedAt, e.T)
		}
	}
	refusedSeen := 0
	for i := range c.Steps {
		if c.Steps[i].Op == "send" && tr.Steps[i].SendErr != "" {
			refusedSeen++
		}
	}
	N := time.Duration(c.N) * time.Second
	// the instant the session became logged on
	var t0 time.Duration = -1
	var outs []rig.Emitted
	solicited := map[int]bool{} // index in outs of Heartbeats that answer a TestRequest or are retransmissions
	maxSeq := 0
	nearDeadline, idle := false, false
	var end time.Duration
	nCur := c.N
	segment := func() {
		// judge what has been collected so far with the interval in force
		vs = append(vs, judgeC08(nCur, t0, outs, solicited, end, &nearDeadline, &idle, refusedAt)...)
	}
	for i := range c.Steps {
		res := tr.Steps[i]
		if c.N2 > 0 && i == c.Relogon-1 {
			// the peer's Logout: the first logged-on period ends here
			end = res.At
			segment()
			t0, outs, solicited = -1, nil, map[int]bool{}
			nCur = c.N2
			continue
		}
		end = res.End
		if t0 < 0 {
			if res.Logged {
				t0 = res.At
				// messages of the logon step itself count from t0
				outs = append(outs, res.Out...)
				for _, o := range res.Out {
					if n := atoi(o.Seq); n > maxSeq {
						maxSeq = n
					}
				}
			}
			continue
		}
		for _, o := range res.Out {
			if _, has := o.Get(rig.TagTestReqID); has && o.Type == rig.THeartbeat {
				solicited[len(outs)] = true
			}
			if n := atoi(o.Seq); n <= maxSeq {
				solicited[len(outs)] = true // a retransmission (asked for by the peer), whatever its type
			} else {
				maxSeq = n
			}
			outs = append(outs, o)
		}
		if res.RunEnded {
			return []pbt.Violation{pbt.V("harness:disconnected", "the session disconnected although the peer kept sending")}
		}
	}
	if t0 < 0 {
		return []pbt.Violation{pbt.V("harness:not-logged", "logon did not succeed")}
	}
	segment()
	periods := int((end - t0) / N)
	nontrivial := periods >= 3 && (nearDeadline || idle)
	rec.Case(evid.FPs(fmt.Sprintf("%s|%d|%d|%d|%v%v", c.Cfg.Role, c.N, len(c.Steps), len(outs), nearDeadline, idle)), nontrivial)
	rec.Hist("role:" + c.Cfg.Role)
	if c.Asked > 0 {
		rec.Hist("interval-set-by-the-logon-callback")
		for _, o := range tr.Steps[0].Out {
			if got, _ := o.Get(rig.TagHeartBtInt); o.Type == rig.TLogon && got != fmt.Sprint(c.N) && len(vs) == 0 {
				vs = append(vs, pbt.V("answer-interval", "the logon callback set HeartBtInt %d (the client asked for %d), the Logon answer carries %q", c.N, c.Asked, got))
			}
		}
	}
	if c.HookRegisters {
		rec.Hist("outgoing-hook-registers-a-hook")
	}
	if c.ErrCallback {
		for _, e := range tr.Log.Since(0) {
			if e.Kind == "error-callback" {
				rec.Hist("error-callback-sends-through-the-session")
				break
			}
		}
	}
	if nearDeadline {
		rec.Hist("send-near-deadline")
	}
	if idle {
		rec.Hist("consecutive-heartbeats")
	}
	if c.Silence {
		rec.Hist("peer-silent-until-probed")
	}
	if c.N2 > 0 {
		rec.Hist("relogon-with-another-interval")
	}
	if refusedSeen > 0 {
		rec.Hist("refused-application-sends")
	}
	if len(refusedAt) > 0 {
		rec.Hist("refused-heartbeat")
	}
	if c.BadLogouts > 0 {
		rec.Hist("damaged-logout-in-between")
	}
	if c.RemoveAt != "" {
		rec.Hist("application-removes-a-handler")
	}
	rec.Hist(fmt.Sprintf("N<=%d", bucket(c.N)))
	rec.Extra("outbound_messages_judged", int64(len(outs)))
	if rec.WantSample() && nontrivial {
		var tl []string
		for _, o := range outs {
			tl = append(tl, fmt.Sprintf("%v:%s", o.At, o.Type))
			if len(tl) > 30 {
				break
			}
		}
		rec.Sample(map[string]any{"N": c.N, "role": c.Cfg.Role, "outbound_timeline": tl})
	}
	return vs
}

func bucket(n int) int {
	for _, b := range []int{1, 5, 10, 30, 60, 120} {
		if n <= b {
			return b
		}
	}
	return 999
}

func TestC08(t *testing.T) {
	outerT = t
	rec := evid.New("C08")
	pbt.Run(t, "C08", rec, genC08, checkC08)
}

// judgeC08 applies the two bounds of the property to one logged-on period.
func judgeC08(n int, t0 time.Duration, outs []rig.Emitted, solicited map[int]bool, end time.Duration, nearDeadline, idle *bool, refusedAt []time.Duration) (vs []pbt.Violation) {
	if t0 < 0 {
		return nil
	}
	N := time.Duration(n) * time.Second
	bound := N + N/10 + time.Millisecond
	// a Heartbeat the application's handler refused is not transmitted, and the
	// timer loop starts a new period after every attempt (TakeTimeout begins with a
	// refresh): one more period per refusal is what the application asked for
	extra := func(from, to time.Duration) (d time.Duration) {
		for _, at := range refusedAt {
			if at > from && at <= to {
				d += N + N/10 + time.Millisecond
			}
		}
		return d
	}
	prev := t0
	prevStrict := t0 // latest outbound instant strictly before the current message's (same-instant rule)
	for k, o := range outs {
		if k > 0 && outs[k-1].At < o.At {
			prevStrict = outs[k-1].At
		}
		gap := o.At - prev
		if gap > bound+extra(prev, o.At) {
			vs = append(vs, pbt.V("silent-too-long", "N=%ds: nothing was transmitted between %v and %v (%v > N+N/10)", n, prev, o.At, gap))
			break
		}
		if o.Type == rig.THeartbeat && !solicited[k] && k > 0 && o.At-prevStrict < N {
			vs = append(vs, pbt.V("heartbeat-too-early", "N=%ds: unsolicited Heartbeat at %v, only %v after the previous outbound message at %v", n, o.At, o.At-prevStrict, prevStrict))
			break
		}
		if o.Type == rig.THeartbeat && !solicited[k] && k == 0 && o.At-t0 < N {
			vs = append(vs, pbt.V("heartbeat-too-early", "N=%ds: unsolicited Heartbeat at %v, only %v after logon", n, o.At, o.At-t0))
			break
		}
		if o.Type != rig.THeartbeat && gap > N-N/10 && gap < N+N/10 {
			*nearDeadline = true
		}
		if gap >= N && k > 0 && outs[k-1].Type == rig.THeartbeat && o.Type == rig.THeartbeat {
			*idle = true
		}
		prev = o.At
	}
	if len(vs) == 0 && end-prev > bound+extra(prev, end) {
		vs = append(vs, pbt.V("silent-too-long", "N=%ds: nothing was transmitted between %v and the end of the history at %v", n, prev, end))
	}
	return vs
}
