package sess

import (
	"bytes"
	"fmt"
	"testing"

	simplefixgo "github.com/b2broker/simplefix-go"
	"github.com/b2broker/simplefix-go/fix"
	"github.com/b2broker/simplefix-go/session/messages"
	"github.com/b2broker/simplefix-go/storages/memory"
	"pgregory.net/rapid"

	"verif/harness/evid"
	"verif/harness/pbt"
	"verif/harness/rig"
)

// ---------- C10: a ResendRequest is answered with exactly the requested stored messages ----------

type C10Case struct {
	Script
	Reuse        bool    `json:"reuse"`           // the application reuses one message object for all its sends
	Prior        *Script `json:"prior,omitempty"` // an earlier logged-on session on the same stores, after which the application reset both counters (a new trading day): the numbers start again at 1 and the store must answer with the NEW messages
	CounterFails bool    `json:"counter_fails,omitempty"`
	Stamp        bool    `json:"stamp"` // an application outgoing handler stamps every message that has a Text field (the documented use of HandleOutgoing): what goes out first, and is stored, carries the stamp
}

func genC10(t *rapid.T) *C10Case {
	cfg := genCfg(t, "")
	cfg.Approve = "all"
	g := &hgen{t: t, cfg: cfg, inSeq: 1}
	c := &C10Case{Reuse: rapid.IntRange(0, 19).Draw(t, "reuse") == 0}
	c.Cfg = cfg
	add := func(s rig.Step) { c.Steps = append(c.Steps, s) }
	add(rig.Step{Op: "in", In: g.goodLogon(0)})
	g.sent = 1
	if cfg.Role == "initiator" {
		g.sent = 1 // its own Logon
	}
	np := rapid.IntRange(0, 40).Draw(t, "prefix")
	for i := 0; i < np; i++ {
		switch rapid.IntRange(0, 9).Draw(t, "prefixKind") {
		case 0, 1, 2, 3, 4:
			add(rig.Step{Op: "send", ID: fmt.Sprintf("app%d", i)})
		case 5, 6:
			add(rig.Step{Op: "in", In: g.testRequest(fmt.Sprintf("t%d", i))})
		case 7:
			add(rig.Step{Op: "in", In: g.goodLogon(g.hb)}) // rejected: a Reject is stored
		case 8:
			if rapid.Bool().Draw(t, "probe") {
				// the peer stays silent until the session probes it with a TestRequest
				// (and sends timer Heartbeats meanwhile), then answers
				T := int64(tolT(g.hb))
				add(rig.Step{Op: "advance", Dt: T + T/10 + 1e6})
				if rapid.Bool().Draw(t, "answerProbe") {
					add(rig.Step{Op: "in", In: g.heartbeat("")})
				} else {
					// the peer's first message after the probe is a ResendRequest
					b, e := g.resendRange()
					add(rig.Step{Op: "in", In: g.resend(b, e)})
				}
				g.sent += 2
				break
			}
			// one timer-driven Heartbeat, then the peer shows it is alive
			add(rig.Step{Op: "advance", Dt: int64(g.hb)*1e9 + 1e6})
			add(rig.Step{Op: "in", In: g.heartbeat("")})
		default:
			add(rig.Step{Op: "in", In: damage(t, g.heartbeat(""))}) // a Reject
		}
		g.sent++
	}
	nr := rapid.IntRange(1, 6).Draw(t, "requests")
	failAt := -1
	if rapid.IntRange(0, 7).Draw(t, "counterFails") == 0 {
		// the counter store stops recording numbers (SetSeqNum fails) before one of the
		// requests: the incoming number of the request cannot be recorded, what was sent is
		// still in the message store and is retransmitted all the same
		failAt = rapid.IntRange(0, nr-1).Draw(t, "failAt")
	}
	for i := 0; i < nr; i++ {
		if i == failAt {
			add(rig.Step{Op: "counter-fails"})
			c.CounterFails = true
		}
		b, e := g.resendRange()
		if rapid.IntRange(0, 11).Draw(t, "negativeEnd") == 0 {
			// an EndSeqNo below zero is not "through the last message sent": the range is empty
			e = -rapid.IntRange(1, 3).Draw(t, "negE")
		}
		rq := g.resend(b, e)
		if rapid.IntRange(0, 2).Draw(t, "headerLookalikes") == 0 {
			// optional header fields whose tags END in the digits of BeginSeqNo (7) / EndSeqNo (16)
			rq.PreSeq = append(rq.PreSeq, rapid.SampledFrom([]rig.Tok{rig.F("57", "DESK"), rig.F("57", "3"), rig.F("97", "N"), rig.F("347", "UTF-8"), rig.F("116", "2"), rig.F("116", "X")}).Draw(t, "lookalikeHeader"))
		}
		add(rig.Step{Op: "in", In: rq})
		if rapid.IntRange(0, 4).Draw(t, "between") == 0 {
			add(rig.Step{Op: "send", ID: fmt.Sprintf("late%d", i)})
			g.sent++
		}
	}
	c.MaxHB = g.maxHB
	if !c.Reuse && rapid.IntRange(0, 4).Draw(t, "withPrior") == 0 {
		pg := &hgen{t: t, cfg: cfg, inSeq: 1}
		p := &Script{Cfg: cfg}
		p.Steps = append(p.Steps, rig.Step{Op: "in", In: pg.goodLogon(0)})
		for i := rapid.IntRange(1, 12).Draw(t, "priorSends"); i > 0; i-- {
			if rapid.IntRange(0, 3).Draw(t, "priorKind") == 0 {
				p.Steps = append(p.Steps, rig.Step{Op: "in", In: pg.testRequest(fmt.Sprintf("old-t%d", i))})
			} else {
				p.Steps = append(p.Steps, rig.Step{Op: "send", ID: fmt.Sprintf("old-%d", i)})
			}
		}
		p.MaxHB = pg.maxHB
		c.Prior = p
	}
	c.Stamp = !c.Reuse && rapid.IntRange(0, 3).Draw(t, "stamp") == 0
	if c.Prior == nil && !c.Reuse && rapid.IntRange(0, 5).Draw(t, "failSaves") == 0 {
		// the message store refuses one or two Save calls: those messages are not transmitted (C19) and
		// cannot be asked for again; everything that did go out can
		for k := rapid.IntRange(1, 2).Draw(t, "nFailSaves"); k > 0; k-- {
			c.Cfg.FailSaves = append(c.Cfg.FailSaves, rapid.IntRange(2, 16).Draw(t, "failSave"))
		}
	}
	// a message store that keeps its messages per session identity (the StorageID it is given)
	c.Cfg.PartitionStore = c.Prior == nil && rapid.IntRange(0, 2).Draw(t, "partitionStore") == 0
	return c
}

func checkC10(c *C10Case, rec *evid.Rec) (vs []pbt.Violation) {
	hooks := &rig.Hooks{}
	if c.Stamp {
		hooks.BeforeRun = func(h *simplefixgo.DefaultHandler, log *rig.EventLog) {
			h.HandleOutgoing(simplefixgo.AllMsgTypes, func(msg simplefixgo.SendingMessage) bool {
				setText(msg, "STAMPED") // idempotent: a retransmission passes through the handlers again
				return true
			})
		}
	}
	if c.Reuse {
		shared := rig.NewApp("shared")
		hooks.AppMessage = func(st *rig.Step) messages.Message { return shared }
	}
	if c.Prior != nil {
		inner := memory.NewStorage()
		ptr := rig.RunDirect(outerT, c.Prior.Cfg, c.Prior.Steps, &rig.Hooks{Inner: inner}, c.Prior.MaxHB)
		if ptr.Trouble != "" {
			return []pbt.Violation{pbt.V("harness", "prior session: %s", ptr.Trouble)}
		}
		// the application starts the numbering afresh
		_ = inner.ResetSeqNum(fix.StorageID{Side: fix.Outgoing})
		_ = inner.ResetSeqNum(fix.StorageID{Side: fix.Incoming})
		hooks.Inner = inner
		rec.Hist("store-reused-after-counter-reset")
	}
	tr := rig.RunDirect(outerT, c.Cfg, c.Steps, hooks, c.MaxHB)
	if tr.Trouble != "" {
		return []pbt.Violation{pbt.V("harness", "%s", tr.Trouble)}
	}
	if tr.RunPanic != "" {
		return []pbt.Violation{pbt.V("inbound-panic", "handler.Run panicked: %s", tr.RunPanic)}
	}
	first := map[int][]byte{}
	last := 0
	noteFresh := func(r rig.StepRes) (fresh, resent []rig.Emitted) {
		for _, o := range r.Out {
			n := atoi(o.Seq)
			if n > last {
				last = n
				first[n] = o.Raw
				fresh = append(fresh, o)
			} else {
				resent = append(resent, o)
			}
		}
		return
	}
	noteFresh(tr.Setup)
	nontrivial := false
	abstract := c.Cfg.Role
	sends := 0
	reusedKey := func(key string) string {
		// the application handed the same message object to Send at least
		// twice: the bundled store keeps the object, not its bytes (known finding)
		if c.Reuse && sends >= 2 {
			return "resend-wrong:reused-object"
		}
		return key
	}
	for i := range c.Steps {
		st := &c.Steps[i]
		res := tr.Steps[i]
		if !(st.Op == "in" && st.In.Type == rig.TResendRequest) {
			noteFresh(res)
			if st.Op == "send" {
				sends++
			}
			continue
		}
		lastBefore := last
		b, e := atoi(st.In.Fields[0].Val), atoi(st.In.Fields[1].Val)
		abstract += fmt.Sprintf("|%d:%d:%d", lastBefore, b, e)
		if lastBefore >= 3 && ((b >= 1 && b < e && e <= lastBefore) || (e == 0 && b >= 1 && b <= lastBefore)) {
			nontrivial = true
		}
		kind := "other"
		switch {
		case b >= 1 && e >= b && e <= lastBefore:
			kind = "inside"
		case b >= 1 && b <= lastBefore && e == 0:
			kind = "to-end"
		case e < 0:
			kind = "negative-end"
		case b > e && e != 0:
			kind = "b>e"
		case b == 0:
			kind = "b=0"
		case b > lastBefore:
			kind = "beyond"
		case e > lastBefore:
			kind = "partly-beyond"
		}
		rec.Hist("range:" + kind)
		// everything emitted in this step: nothing outside the range, nothing invented
		var got []int
		for _, o := range res.Out {
			k := atoi(o.Seq)
			orig, ok := first[k]
			switch {
			case !ok || k > lastBefore:
				vs = append(vs, pbt.V(reusedKey("resend-invented"), "step %d: ResendRequest %d..%d (last sent %d) made the session emit a message that was never sent before: %s", i, b, e, lastBefore, o.String()))
			case k < b || (e != 0 && k > e):
				vs = append(vs, pbt.V(reusedKey("resend-outside-range"), "step %d: ResendRequest %d..%d answered with message #%d", i, b, e, k))
			case !bytes.Equal(orig, o.Raw):
				vs = append(vs, pbt.V(reusedKey("resend-differs"), "step %d: retransmission of #%d differs from its first transmission:\n first  %s\n resent %s", i, k, rig.Decode(orig).String(), o.String()))
			}
			got = append(got, k)
		}
		if len(vs) > 0 {
			break
		}
		// exactness for requests inside the sent range
		var want []int
		if kind == "inside" {
			for k := b; k <= e; k++ {
				want = append(want, k)
			}
		} else if kind == "to-end" {
			for k := b; k <= lastBefore; k++ {
				want = append(want, k)
			}
		}
		if want != nil && len(c.Cfg.FailSaves) > 0 {
			// a retransmission passes through the store again: when one of the refused Save calls falls
			// into this very answer, the rest of the answer is legitimately missing
			evs := tr.Log.Since(0)
			raw := st.In.Bytes()
			for j, e := range evs {
				if e.Kind != "inject" || !bytes.Equal(e.Bytes, raw) {
					continue
				}
				if kind == "to-end" {
					// "through the last message sent" is resolved from the counter store; a number that was taken
					// but never went out (its Save was refused) then lies inside the range
					for _, f := range evs[:j] {
						if f.Kind == "store:save" && f.Err {
							want = nil
							rec.Hist("open-ended-request-after-a-refused-save")
						}
					}
				}
				for _, f := range evs[j+1:] {
					if f.Kind == "inject" || f.Kind == "send-call" {
						break
					}
					if f.Kind == "store:save" && f.Err {
						want = nil
						rec.Hist("save-refused-during-the-answer")
					}
				}
			}
		}
		for _, k := range want {
			if _, sent := first[k]; !sent {
				want = nil // the range holds a number that never went out (its Save failed): exactness is not defined
				rec.Hist("range-holds-a-number-that-was-never-transmitted")
				break
			}
		}
		if want != nil && fmt.Sprint(got) != fmt.Sprint(want) {
			vs = append(vs, pbt.V(reusedKey("resend-incomplete:"+kind), "step %d: ResendRequest %d..%d (last sent %d) must retransmit %v, retransmitted %v", i, b, e, lastBefore, want, got))
			break
		}
	}
	rec.Case(evid.FPs(abstract), nontrivial)
	rec.Hist("role:" + c.Cfg.Role)
	if c.Stamp {
		rec.Hist("stamping-outgoing-handler")
	}
	if c.CounterFails {
		rec.Hist("counter-store-refuses-writes-before-a-request")
	}
	if len(c.Cfg.FailSaves) > 0 {
		rec.Hist("message-store-refuses-some-saves")
	}
	if c.Cfg.PartitionStore {
		rec.Hist("store-partitioned-by-identity")
	}
	for _, o := range first {
		if t, _ := rig.Decode(o).Get(rig.TagMsgType); t == rig.TTestRequest {
			rec.Hist("prefix-holds-session-testrequest")
			break
		}
	}
	if c.Reuse {
		rec.Hist("reused-message-object")
	}
	if rec.WantSample() && nontrivial {
		rec.Sample(showScript(&c.Script))
	}
	return vs
}

func TestC10(t *testing.T) {
	outerT = t
	rec := evid.New("C10")
	pbt.Run(t, "C10", rec, genC10, checkC10)
}

// ---- gap detection on Logon ----

type C10GapCase struct {
	Cfg       rig.Cfg `json:"cfg"`
	Expected  int     `json:"stored_inbound"` // the counter store's last inbound number c
	Received  int     `json:"received"`       // MsgSeqNum r of the peer's Logon
	MaxHB     int     `json:"max_hb"`
	ResetFlag bool    `json:"reset_flag,omitempty"` // the Logon carries ResetSeqNumFlag=Y
	Lowered   int     `json:"lowered,omitempty"`    // the store held this higher number before it was set (down) to Expected: a peer that started its numbering afresh had been recorded since
	AppReset  bool    `json:"app_reset,omitempty"`  // the stored number is what ResetSeqNum leaves behind (the application reset the incoming side): Expected is 0 by definition
}

func genC10Gap(t *rapid.T) *C10GapCase {
	cfg := genCfg(t, "")
	cfg.Approve = "all"
	c := &C10GapCase{Cfg: cfg}
	c.Expected = rapid.IntRange(0, 8).Draw(t, "c")
	if rapid.IntRange(0, 9).Draw(t, "bigC") == 0 {
		c.Expected = rapid.IntRange(0, 100000).Draw(t, "cBig")
	}
	c.Received = c.Expected + rapid.IntRange(-3, 6).Draw(t, "rDelta")
	if c.Received < 0 {
		c.Received = 0
	}
	c.MaxHB = cfg.HBMax
	if rapid.IntRange(0, 2).Draw(t, "lowered") == 0 {
		c.Lowered = c.Expected + rapid.IntRange(1, 40).Draw(t, "loweredFrom")
	}
	c.ResetFlag = rapid.IntRange(0, 4).Draw(t, "resetFlag") == 0
	if rapid.IntRange(0, 4).Draw(t, "appReset") == 0 {
		c.AppReset = true
		c.Expected = 0
		c.Received = rapid.IntRange(0, 6).Draw(t, "rAfterReset")
	}
	return c
}

func checkC10Gap(c *C10GapCase, rec *evid.Rec) (vs []pbt.Violation) {
	inner := memory.NewStorage()
	if c.Lowered > 0 {
		_ = inner.SetSeqNum(fix.StorageID{Side: fix.Incoming}, c.Lowered)
		rec.Hist("stored-number-was-higher-before")
	}
	_ = inner.SetSeqNum(fix.StorageID{Side: fix.Incoming}, c.Expected)
	if c.AppReset {
		_ = inner.SetSeqNum(fix.StorageID{Side: fix.Incoming}, 57) // whatever was there before ...
		_ = inner.ResetSeqNum(fix.StorageID{Side: fix.Incoming})   // ... the application resets it: nothing received yet
	}
	g := &hgen{cfg: c.Cfg, inSeq: c.Received}
	hb := c.Cfg.HBMin
	if c.Cfg.Role == "initiator" {
		hb = c.Cfg.HBInt
	}
	logon := &rig.InMsg{Type: rig.TLogon, Seq: itoa(c.Received), Fields: []rig.Tok{
		rig.F(rig.TagEncryptMethod, c.Cfg.Methods[0]), rig.F(rig.TagHeartBtInt, itoa(hb)),
		rig.F(rig.TagUsername, "alice"), rig.F(rig.TagPassword, "secret")}}
	if c.ResetFlag {
		logon.Fields = append(logon.Fields, rig.F(rig.TagResetSeqNumFlag, "Y")) // the library leaves acting on the flag to the application: the gap rule is unchanged
	}
	_ = g
	steps := []rig.Step{{Op: "in", In: logon}}
	tr := rig.RunDirect(outerT, c.Cfg, steps, &rig.Hooks{Inner: inner}, c.MaxHB)
	if tr.Trouble != "" {
		return []pbt.Violation{pbt.V("harness", "%s", tr.Trouble)}
	}
	res := tr.Steps[0]
	var reqs []rig.Emitted
	for _, o := range res.Out {
		if o.Type == rig.TResendRequest {
			reqs = append(reqs, o)
		}
	}
	gap := c.Received > c.Expected+1
	switch {
	case gap && len(reqs) == 0:
		vs = append(vs, pbt.V("gap-not-requested", "last inbound number stored %d, Logon carries %d: no ResendRequest sent:%s", c.Expected, c.Received, showOut(res)))
	case gap:
		if got, _ := reqs[0].Get(rig.TagBeginSeqNo); got != itoa(c.Expected+1) {
			vs = append(vs, pbt.V("gap-begin-wrong", "last inbound number stored %d, Logon carries %d: ResendRequest starts at %s, first missing number is %d", c.Expected, c.Received, got, c.Expected+1))
		}
	case !gap && len(reqs) > 0:
		vs = append(vs, pbt.V("gap-spurious-request", "last inbound number stored %d, Logon carries %d (no gap) but a ResendRequest was sent: %s", c.Expected, c.Received, reqs[0].String()))
	}
	rec.Case(evid.FPs(fmt.Sprintf("%s|%d|%d", c.Cfg.Role, c.Expected, c.Received)), gap)
	if gap {
		rec.Hist("gap")
	} else {
		rec.Hist("no-gap")
	}
	if c.ResetFlag {
		rec.Hist("logon-with-resetseqnumflag")
	}
	if c.AppReset {
		rec.Hist("incoming-counter-reset-by-application")
	}
	if rec.WantSample() && gap {
		rec.Sample(map[string]any{"role": c.Cfg.Role, "stored_last_inbound": c.Expected, "logon_seq": c.Received})
	}
	return vs
}

func TestC10Gap(t *testing.T) {
	outerT = t
	rec := evid.New("C10/gap")
	pbt.Run(t, "C10", rec, genC10Gap, checkC10Gap)
}

// ---- gap detection on Logon, with the expected number produced by a history ----
//
// TestC10Gap presets the counter store. Here the "next expected" number is what
// a real earlier logon left behind: a logon, valid inbound traffic (also while
// the session waits for the answer to its own TestRequest or to its own
// Logout), an ending (peer's Logout, local Logout answered by the peer, or the
// connection simply ending), and then a further Logon - on the same connection
// (acceptor, after a logout handshake) or of a new session on the same stores -
// whose MsgSeqNum is last+1+delta. Every inbound message of the first logon is
// valid and numbered consecutively, so the first missing number is last+1.

type C10HistGapCase struct {
	Script
	Mode   string     `json:"mode"`   // same-connection | new-session
	Ending string     `json:"ending"` // peer-logout | local-logout | none
	Last   int        `json:"last"`   // MsgSeqNum of the last inbound message of the first logon
	Delta  int        `json:"delta"`  // the further Logon carries last+1+delta
	Probed bool       `json:"probed"` // the history lets the session send its own TestRequest and answers it
	Second *rig.InMsg `json:"second"`
}

func genC10HistGap(t *rapid.T) *C10HistGapCase {
	cfg := genCfg(t, "")
	cfg.Approve = "all"
	c := &C10HistGapCase{}
	c.Mode = "new-session"
	if cfg.Role == "acceptor" && rapid.Bool().Draw(t, "sameConn") {
		c.Mode = "same-connection"
	}
	g := &hgen{t: t, cfg: cfg, inSeq: 1}
	add := func(s rig.Step) { c.Steps = append(c.Steps, s) }
	add(rig.Step{Op: "in", In: g.goodLogon(0)})
	hb := g.hb
	T := int64(tolT(hb))
	sinceIn := int64(0) // virtual time since the peer last said something (local sends do not count)
	traffic := func(n int, lbl string) {
		for i := 0; i < n; i++ {
			// stay below the probe threshold: the peer's silence never reaches T here
			room := T - sinceIn - 1e6
			if room < 1 {
				add(rig.Step{Op: "in", In: g.heartbeat("")})
				sinceIn = 0
				continue
			}
			dt := rapid.Int64Range(1, min(int64(hb)*5e8, room)).Draw(t, lbl+"Dt")
			add(rig.Step{Op: "advance", Dt: dt})
			sinceIn += dt
			switch rapid.IntRange(0, 3).Draw(t, lbl+"Kind") {
			case 0:
				add(rig.Step{Op: "in", In: g.heartbeat("")})
				sinceIn = 0
			case 1:
				add(rig.Step{Op: "in", In: g.testRequest(fmt.Sprintf("%s%d", lbl, i))})
				sinceIn = 0
			case 2:
				add(rig.Step{Op: "in", In: g.app()})
				sinceIn = 0
			default:
				add(rig.Step{Op: "send", ID: fmt.Sprintf("%s-out%d", lbl, i)})
			}
		}
	}
	traffic(rapid.IntRange(0, 4).Draw(t, "n1"), "a")
	if rapid.IntRange(0, 2).Draw(t, "probed") == 0 {
		// the peer falls silent until the session probes it, then answers
		c.Probed = true
		add(rig.Step{Op: "advance", Dt: T + T/10 + 1e6 - sinceIn}) // total silence T + T/10 + 1 ms: probed, far from the 2T of a disconnect
		add(rig.Step{Op: "in", In: g.heartbeat("1")})
		sinceIn = 0
		traffic(rapid.IntRange(0, 1).Draw(t, "n2"), "b")
	}
	endings := []string{"peer-logout", "local-logout"}
	if c.Mode == "new-session" {
		endings = append(endings, "none", "none")
	}
	c.Ending = rapid.SampledFrom(endings).Draw(t, "ending")
	switch c.Ending {
	case "peer-logout":
		add(rig.Step{Op: "in", In: g.logout()})
	case "local-logout":
		add(rig.Step{Op: "logout"})
		add(rig.Step{Op: "in", In: g.logout()})
	}
	c.Last = g.inSeq - 1
	c.Delta = rapid.SampledFrom([]int{0, 0, 1, 2, 5, 40}).Draw(t, "delta")
	g.inSeq = c.Last + 1 + c.Delta
	c.Second = g.goodLogon(0)
	c.MaxHB = g.maxHB
	c.Cfg = cfg
	return c
}

func checkC10HistGap(c *C10HistGapCase, rec *evid.Rec) (vs []pbt.Violation) {
	inner := memory.NewStorage()
	steps := append([]rig.Step{}, c.Steps...)
	if c.Mode == "same-connection" {
		steps = append(steps, rig.Step{Op: "in", In: c.Second})
	}
	tr := rig.RunDirect(outerT, c.Cfg, steps, &rig.Hooks{Inner: inner}, c.MaxHB)
	if tr.Trouble != "" {
		return []pbt.Violation{pbt.V("harness", "%s", tr.Trouble)}
	}
	if tr.RunPanic != "" {
		return []pbt.Violation{pbt.V("inbound-panic", "handler.Run panicked: %s", tr.RunPanic)}
	}
	if !tr.Steps[0].Logged {
		return []pbt.Violation{pbt.V("harness:not-logged", "the first logon did not succeed")}
	}
	for i := range c.Steps {
		if c.Steps[i].Op == "in" && !tr.Steps[i].Delivered {
			return []pbt.Violation{pbt.V("harness:not-delivered", "step %d of the first logon was not delivered (the session ended early)", i)}
		}
	}
	res := tr.Steps[len(tr.Steps)-1]
	if c.Mode == "new-session" {
		tr2 := rig.RunDirect(outerT, c.Cfg, []rig.Step{{Op: "in", In: c.Second}}, &rig.Hooks{Inner: inner}, c.MaxHB)
		if tr2.Trouble != "" {
			return []pbt.Violation{pbt.V("harness", "second session: %s", tr2.Trouble)}
		}
		res = tr2.Steps[0]
	}
	if !res.Logged {
		return []pbt.Violation{pbt.V("harness:relogon-refused", "the further Logon was not accepted:%s", showOut(res))}
	}
	var reqs []rig.Emitted
	for _, o := range res.Out {
		if o.Type == rig.TResendRequest {
			reqs = append(reqs, o)
		}
	}
	gap := c.Delta > 0
	what := fmt.Sprintf("%s, first logon ended by %s, last inbound message of it numbered %d, further Logon carries %d", c.Mode, c.Ending, c.Last, c.Last+1+c.Delta)
	switch {
	case gap && len(reqs) == 0:
		vs = append(vs, pbt.V("gap-not-requested", "%s: no ResendRequest sent:%s", what, showOut(res)))
	case gap:
		if got, _ := reqs[0].Get(rig.TagBeginSeqNo); got != itoa(c.Last+1) {
			vs = append(vs, pbt.V("gap-begin-wrong", "%s: ResendRequest starts at %s, the first missing number is %d", what, got, c.Last+1))
		}
	case !gap && len(reqs) > 0:
		vs = append(vs, pbt.V("gap-spurious-request", "%s (no gap) but a ResendRequest was sent: %s", what, reqs[0].String()))
	}
	rec.Case(evid.FPs(fmt.Sprintf("%s|%s|%s|%d|%d|%v|%d", c.Cfg.Role, c.Mode, c.Ending, c.Last, c.Delta, c.Probed, len(c.Steps))), true)
	rec.Hist("histgap:" + c.Mode)
	rec.Hist("histgap:ending:" + c.Ending)
	if c.Probed {
		rec.Hist("histgap:own-testrequest-answered")
	}
	if gap {
		rec.Hist("histgap:gap")
	}
	if rec.WantSample() {
		rec.Sample(map[string]any{"engine": "gap after a history", "role": c.Cfg.Role, "mode": c.Mode, "ending": c.Ending, "last_inbound": c.Last, "further_logon_seq": c.Last + 1 + c.Delta, "history": showScript(&c.Script)})
	}
	return vs
}

func TestC10HistGap(t *testing.T) {
	outerT = t
	rec := evid.New("C10/histgap")
	pbt.Run(t, "C10", rec, genC10HistGap, checkC10HistGap)
}
