package sess

import (
	"fmt"
	"strconv"
	"strings"
	"testing"

	"pgregory.net/rapid"

	"verif/harness/evid"
	"verif/harness/pbt"
	"verif/harness/rig"
)

// ---------- C14: a TestRequest is answered by one Heartbeat echoing its TestReqID ----------

func genC14(t *rapid.T) *Script {
	cfg := genCfg(t, "")
	cfg.Approve = "all"
	// the peer's numbering may be far along: beyond 2^31 and 2^32 as well
	g := &hgen{t: t, cfg: cfg, inSeq: rapid.SampledFrom([]int{1, 1, 1, 1, 2147483645, 4294967290, 1000000000000}).Draw(t, "peerSeqBase")}
	sc := &Script{Cfg: cfg}
	sc.Steps = append(sc.Steps, rig.Step{Op: "in", In: g.goodLogon(0)})
	g.logged, g.sent = true, 1
	n := rapid.IntRange(1, 12).Draw(t, "nSteps")
	elapsed := int64(0)
	sinceIn := int64(0) // virtual time since the peer last sent something
	for i := 0; i < n; i++ {
		if k := len(sc.Steps) - 1; k >= 0 && (sc.Steps[k].Op == "in" || sc.Steps[k].Op == "burst") {
			sinceIn = 0
		}
		if rapid.IntRange(0, 19).Draw(t, "probeFirst") == 0 {
			// the peer stays silent until the session has sent its own TestRequest
			// and then sends one itself before anything else
			T := int64(tolT(g.hb))
			// total silence T + T/10 + 1 ms: the probe is out, the disconnect (not before 2T) is not due
			sc.Steps = append(sc.Steps, rig.Step{Op: "advance", Dt: T + T/10 + 1e6 - sinceIn})
			id, _ := genTestReqID(t)
			sc.Steps = append(sc.Steps, rig.Step{Op: "in", In: g.testRequest(id), Kind: "while-probing"})
			elapsed = 0
			continue
		}
		switch k := rapid.IntRange(0, 9).Draw(t, "stepKind"); {
		case k < 4:
			id, _ := genTestReqID(t)
			m := g.testRequest(id)
			if rapid.IntRange(0, 4).Draw(t, "withHops") == 0 {
				// the standard header's repeating group (NoHops) is present, and the TestReqID may look like one of its fields
				m.PreSeq = append(m.PreSeq, rig.F("627", "1"), rig.F("628", "HUB"), rig.F("630", rapid.SampledFrom([]string{"1", "7", "-8", "+9", "-0", "0", "2147483648"}).Draw(t, "hopRef")))
				if rapid.Bool().Draw(t, "hopLookalike") {
					m.Fields[0].Val = rapid.SampledFrom([]string{"ROUTE628=LDN", "628=X", "a627=1", "x630=2"}).Draw(t, "hopLookalikeID")
				}
			}
			sc.Steps = append(sc.Steps, rig.Step{Op: "in", In: m})
			g.sent++
		case k < 7:
			nb := rapid.IntRange(2, 8).Draw(t, "burstLen")
			var burst []*rig.InMsg
			for j := 0; j < nb; j++ {
				switch bk := rapid.IntRange(0, 9).Draw(t, "burstKind"); {
				case bk < 5:
					id, _ := genTestReqID(t)
					burst = append(burst, g.testRequest(id))
					g.sent++
				case bk < 6:
					burst = append(burst, g.heartbeat(""))
				case bk < 7:
					b, e := g.resendRange()
					burst = append(burst, g.resend(b, e))
				case bk < 8:
					burst = append(burst, g.app())
				default:
					burst = append(burst, g.goodLogon(g.hb)) // a Logon while logged on
					g.sent++
				}
			}
			sc.Steps = append(sc.Steps, rig.Step{Op: "burst", Burst: burst})
		case k < 8:
			sc.Steps = append(sc.Steps, rig.Step{Op: "send", ID: fmt.Sprintf("app%d", i)})
			g.sent++
		case k < 9:
			if rapid.Bool().Draw(t, "damagedOther") {
				// a message that fails the integrity check (also a Logout): rejected, and the next
				// TestRequest is answered as if nothing had happened
				var m *rig.InMsg
				if rapid.Bool().Draw(t, "damagedLogout") {
					m = g.logout()
				} else {
					m = g.heartbeat("")
				}
				sc.Steps = append(sc.Steps, rig.Step{Op: "in", In: damage(t, m)})
				g.sent++
				break
			}
			sc.Steps = append(sc.Steps, rig.Step{Op: "in", In: g.heartbeat("")})
		default:
			// stay below the heartbeat interval in total so that no timer acts
			room := int64(g.hb)*1e9 - elapsed - 1e6
			if room > 0 {
				dt := rapid.Int64Range(1, room).Draw(t, "dt")
				elapsed += dt
				sinceIn += dt
				sc.Steps = append(sc.Steps, rig.Step{Op: "advance", Dt: dt})
			}
		}
	}
	if cfg.Role == "acceptor" && rapid.IntRange(0, 5).Draw(t, "relogonTail") == 0 {
		// the peer logs out and on again on the same connection, then keeps talking (something every 0.6 N)
		// for longer than the watchdog's period, then asks: a peer that is alive is answered as before
		sc.Steps = append(sc.Steps, rig.Step{Op: "in", In: g.logout()}, rig.Step{Op: "in", In: g.goodLogon(g.hb)})
		T := int64(tolT(g.hb))
		gap := int64(g.hb) * 6e8
		for total := int64(0); total <= T+T/5; total += gap {
			sc.Steps = append(sc.Steps, rig.Step{Op: "advance", Dt: gap}, rig.Step{Op: "in", In: g.heartbeat("")})
		}
		id, _ := genTestReqID(t)
		sc.Steps = append(sc.Steps, rig.Step{Op: "in", In: g.testRequest(id), Kind: "after-relogon"})
	}
	sc.MaxHB = g.maxHB
	return sc
}

func checkC14(sc *Script, rec *evid.Rec) (vs []pbt.Violation) {
	tr := rig.RunDirect(outerT, sc.Cfg, sc.Steps, nil, sc.MaxHB)
	if tr.Trouble != "" {
		return []pbt.Violation{pbt.V("harness", "%s", tr.Trouble)}
	}
	if tr.RunPanic != "" {
		return []pbt.Violation{pbt.V("inbound-panic", "handler.Run panicked: %s", tr.RunPanic)}
	}
	nontrivial := false
	shape := sc.Cfg.Role
	if len(tr.Steps) == 0 || !tr.Steps[0].Logged {
		return []pbt.Violation{pbt.V("harness:logon", "the acceptable Logon of step 0 did not log the session on:%s", showOut(tr.Steps[0]))}
	}
	maxSeq := 0
	note := func(r rig.StepRes) rig.StepRes { // keep first transmissions only
		var fresh []rig.Emitted
		for _, o := range r.Out {
			n, err := strconv.Atoi(o.Seq)
			if err == nil && n <= maxSeq {
				continue // a retransmission (answer to a ResendRequest)
			}
			if err == nil {
				maxSeq = n
			}
			fresh = append(fresh, o)
		}
		r.Out = fresh
		return r
	}
	note(tr.Setup)
	for i, st := range sc.Steps {
		res := note(tr.Steps[i])
		var reqs []*rig.InMsg
		var all []*rig.InMsg
		switch st.Op {
		case "in":
			all = []*rig.InMsg{st.In}
		case "burst":
			all = st.Burst
		default:
			continue
		}
		for _, m := range all {
			if m.Type == rig.TTestRequest {
				reqs = append(reqs, m)
			}
		}
		if len(reqs) == 0 {
			continue
		}
		// the Heartbeats with a TestReqID emitted in this step
		var hbIdx []int
		for j, o := range res.Out {
			if o.Type == rig.THeartbeat {
				if _, ok := o.Get(rig.TagTestReqID); ok {
					hbIdx = append(hbIdx, j)
				}
			}
		}
		class := "plain"
		for _, m := range reqs {
			if !isPlain(m.Fields[0].Val) {
				class = "special"
				nontrivial = true
			}
		}
		if len(reqs) >= 2 {
			nontrivial = true
		}
		shape += fmt.Sprintf("|%s:%d:%s", st.Op, len(reqs), class)
		if st.Kind == "while-probing" {
			rec.Hist("testrequest-while-awaiting-own-probe-answer")
		}
		if st.Kind == "after-relogon" {
			rec.Hist("testrequest-a-period-after-a-second-logon")
		}
		if len(hbIdx) != len(reqs) {
			vs = append(vs, pbt.V("answer-count", "step %d: %d TestRequest(s) received, %d Heartbeat answer(s) emitted:%s", i, len(reqs), len(hbIdx), showOut(res)))
			continue
		}
		for k, m := range reqs {
			got, _ := res.Out[hbIdx[k]].Get(rig.TagTestReqID)
			if got != m.Fields[0].Val {
				vs = append(vs, pbt.V("echo-differs", "step %d: TestReqID %q answered with %q", i, m.Fields[0].Val, got))
			}
		}
		if st.Op == "burst" && len(vs) == 0 {
			// order: the k-th Heartbeat precedes every Reject that answers an
			// inbound message placed after the k-th TestRequest
			pos := map[string]int{} // seq of inbound message -> index in burst
			for bi, m := range all {
				pos[m.Seq] = bi
			}
			k := 0
			for bi, m := range all {
				if m.Type != rig.TTestRequest {
					continue
				}
				hbAt := hbIdx[k]
				k++
				for j, o := range res.Out {
					if o.Type != rig.TReject {
						continue
					}
					ref, _ := o.Get(rig.TagRefSeqNum)
					if at, ok := pos[ref]; ok && at > bi && j < hbAt {
						vs = append(vs, pbt.V("answer-order", "step %d: the Reject of inbound #%s was sent before the Heartbeat answering the earlier TestRequest #%s:%s", i, ref, m.Seq, showOut(res)))
					}
				}
			}
		}
	}
	rec.Case(evid.FPs(shape), nontrivial)
	rec.Hist("role:" + sc.Cfg.Role)
	for _, s := range strings.Split(shape, "|")[1:] {
		rec.Hist(s[:strings.LastIndex(s, ":")+1] + s[strings.LastIndex(s, ":")+1:])
	}
	if rec.WantSample() && nontrivial {
		rec.Sample(showScript(sc))
	}
	return vs
}

func TestC14(t *testing.T) {
	outerT = t
	rec := evid.New("C14")
	pbt.Run(t, "C14", rec, genC14, checkC14)
}
