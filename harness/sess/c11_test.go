package sess

import (
	"fmt"
	"testing"

	"pgregory.net/rapid"

	"verif/harness/evid"
	"verif/harness/pbt"
	"verif/harness/ref"
	"verif/harness/rig"
)

// ---------- C11 (session inbound path): no message a peer can send makes the inbound path panic ----------

type C11SessCase struct {
	Script
	Hostile int `json:"hostile"` // number of hostile inbound messages
}

// hostileAdmin takes the token list of a well-formed admin message, damages
// it at token level and has REF frame it correctly, so that it passes the
// integrity check and reaches the session's handlers and the field parser.
func hostileAdmin(t *rapid.T, g *hgen) []byte {
	var m *rig.InMsg
	switch rapid.IntRange(0, 6).Draw(t, "hType") {
	case 0:
		m = g.goodLogon(g.hb)
		m.Fields = append(m.Fields, rig.F("384", "2"), rig.F("372", "D"), rig.F("385", "S"), rig.F("372", "8"), rig.F("385", "R"))
	case 1:
		m = g.logout()
	case 2:
		m = g.heartbeat("x")
	case 3:
		m = g.testRequest("y")
	case 4:
		m = g.resend(1, 0)
	case 5:
		m = &rig.InMsg{Type: rig.TReject, Seq: g.seq(), Fields: []rig.Tok{rig.F(rig.TagRefSeqNum, "1"), rig.F(rig.TagText, "t")}}
	default:
		m = &rig.InMsg{Type: rig.TSequenceReset, Seq: g.seq(), Fields: []rig.Tok{rig.F(rig.TagNewSeqNo, "9"), rig.F(rig.TagGapFillFlag, "Y")}}
	}
	toks := []ref.Tok{rig.F(rig.TagSenderCompID, "PEER"), rig.F(rig.TagTargetCompID, "LIB"), rig.F(rig.TagMsgSeqNum, m.Seq), rig.F(rig.TagSendingTime, "20000101-00:00:00.000"),
		rig.F("627", "1"), rig.F("628", "hop")}
	toks = append(toks, m.Fields...)
	k := rapid.IntRange(0, 3).Draw(t, "hEdits")
	for i := 0; i < k && len(toks) > 0; i++ {
		pos := rapid.IntRange(0, len(toks)-1).Draw(t, "hPos")
		switch rapid.IntRange(0, 10).Draw(t, "hEdit") {
		case 9, 10:
			// an extreme or oddly written number in a numeric field
			var numeric []int
			for j, tk := range toks {
				switch tk.Tag {
				case rig.TagMsgSeqNum, rig.TagHeartBtInt, rig.TagBeginSeqNo, rig.TagEndSeqNo, rig.TagNewSeqNo, rig.TagRefSeqNum, "384", "627", rig.TagEncryptMethod:
					numeric = append(numeric, j)
				}
			}
			if len(numeric) > 0 {
				j := numeric[rapid.IntRange(0, len(numeric)-1).Draw(t, "hNumPos")]
				toks[j].Val = rapid.SampledFrom(extremeNumbers).Draw(t, "hNum")
			}
		case 0:
			toks = append(toks[:pos], toks[pos+1:]...)
		case 1:
			toks[pos] = ref.Tok{Tag: toks[pos].Tag}
		case 2:
			toks[pos] = ref.Tok{Tag: rapid.StringMatching(`[a-z0-9]{0,4}`).Draw(t, "hJunk")}
		case 3:
			toks = append(toks[:pos+1], toks[pos:]...)
		case 4:
			toks = toks[:pos+1]
		case 5:
			toks[pos].Val = rapid.SampledFrom([]string{"0", "1", "2", "9", "", "x", "-1", "99999999999999999999"}).Draw(t, "hVal")
		case 6:
			toks[pos] = ref.Tok{}
		case 7:
			if pos+1 < len(toks) {
				toks[pos], toks[pos+1] = toks[pos+1], toks[pos]
			}
		case 8:
			toks[pos].Tag = rapid.SampledFrom([]string{"384", "627", "34", "35", "10", "9", "8", "108", "7", "16"}).Draw(t, "hTag")
		}
	}
	typ := m.Type
	if rapid.IntRange(0, 19).Draw(t, "hNoType") == 0 {
		typ = ""
	}
	out := ref.Assemble(ref.StdTags, "FIX.4.4", typ, toks)
	if rapid.IntRange(0, 9).Draw(t, "hExtremeLen") == 0 {
		out = ref.Relength(out, ref.StdTags, rapid.SampledFrom(ref.ExtremeLengths).Draw(t, "hDeclaredLen"))
	}
	return out
}

var extremeNumbers = []string{"-9223372036854775808", "9223372036854775807", "-4611686018427387904", "4611686018427387904", "-2147483648", "2147483647",
	"2147483648", "4294967296", "-1", "0", "-0", "+1", "00000000001", "1e3", "0x10", "18446744073709551615", "99999999999999999999", " 1", "1 "}

func genC11Sess(t *rapid.T) *C11SessCase {
	cfg := genCfg(t, "")
	cfg.Approve = "all"
	g := &hgen{t: t, cfg: cfg, inSeq: 1}
	c := &C11SessCase{}
	c.Cfg = cfg
	if rapid.Bool().Draw(t, "loggedOn") {
		c.Steps = append(c.Steps, rig.Step{Op: "in", In: g.goodLogon(0)})
	} else {
		g.hb = cfg.HBMin
	}
	if rapid.IntRange(0, 3).Draw(t, "storeFails") == 0 {
		// the message store refuses some of its Save calls (first transmissions and
		// retransmissions alike pass through it): an answer or a resend fails half-way
		for k := rapid.IntRange(1, 4).Draw(t, "nFailSaves"); k > 0; k-- {
			cfg.FailSaves = append(cfg.FailSaves, rapid.IntRange(1, 14).Draw(t, "failSave"))
		}
		c.Cfg = cfg
	}
	if rapid.IntRange(0, 3).Draw(t, "counterFails") == 0 {
		// the counter store cannot hand out a number now and then: the answer to whatever arrived just then cannot be sent
		for k := rapid.IntRange(1, 3).Draw(t, "nFailNexts"); k > 0; k-- {
			cfg.FailNexts = append(cfg.FailNexts, rapid.IntRange(1, 12).Draw(t, "failNext"))
		}
		c.Cfg = cfg
	}
	n := rapid.IntRange(1, 12).Draw(t, "nSteps")
	for i := 0; i < n; i++ {
		if rapid.IntRange(0, 9).Draw(t, "valid") < 3 {
			// well-formed traffic and local calls in between: the hostile message meets every session state
			switch rapid.IntRange(0, 7).Draw(t, "validKind") {
			case 0:
				c.Steps = append(c.Steps, rig.Step{Op: "in", In: g.logout()})
			case 1:
				c.Steps = append(c.Steps, rig.Step{Op: "in", In: g.goodLogon(0)})
			case 2:
				c.Steps = append(c.Steps, rig.Step{Op: "logout"})
			case 3:
				c.Steps = append(c.Steps, rig.Step{Op: "send", ID: fmt.Sprint("s", i)})
			case 4:
				c.Steps = append(c.Steps, rig.Step{Op: "in", In: g.heartbeat("")})
			case 5:
				c.Steps = append(c.Steps, rig.Step{Op: "in", In: g.resend(1, 0)})
			default:
				c.Steps = append(c.Steps, rig.Step{Op: "in", In: g.testRequest(fmt.Sprint("v", i))})
			}
			continue
		}
		c.Steps = append(c.Steps, rig.Step{Op: "raw", Raw: hostileAdmin(t, g)})
		c.Hostile++
	}
	c.MaxHB = cfg.HBMax
	return c
}

func checkC11Sess(c *C11SessCase, rec *evid.Rec) (vs []pbt.Violation) {
	done := pbt.Watch("C11", "TestC11Session", c)
	defer done()
	// a failure on a library goroutine can kill the process (a panic there, or a runtime fatal error such as
	// unlocking an unlocked mutex, which no recover catches): the case is written down before it runs
	pbt.PreRecord("C11", "TestC11Session", c)
	defer pbt.ClearRecord()
	tr := rig.RunDirect(outerT, c.Cfg, c.Steps, nil, c.MaxHB)
	if tr.Trouble != "" {
		return []pbt.Violation{pbt.V("harness", "%s", tr.Trouble)}
	}
	if tr.RunPanic != "" {
		last := ""
		for i := range c.Steps {
			if i < len(tr.Steps) && tr.Steps[i].Delivered && c.Steps[i].Op == "raw" {
				last = ref.Show(c.Steps[i].Raw)
			}
		}
		vs = append(vs, pbt.V("inbound-panic", "the session's inbound path panicked (%s); last hostile message delivered: %s", tr.RunPanic, last))
	}
	delivered := 0
	abstract := c.Cfg.Role
	for i := range c.Steps {
		if c.Steps[i].Op == "raw" && i < len(tr.Steps) && tr.Steps[i].Delivered {
			delivered++
			t, _ := ref.Lookup(c.Steps[i].Raw, rig.TagMsgType)
			abstract += "|" + t + fmt.Sprint(len(c.Steps[i].Raw))
			rec.Hist("hostile-type:" + t)
		}
	}
	rec.Case(evid.FPs(abstract), delivered >= 1)
	rec.Hist("role:" + c.Cfg.Role)
	if len(c.Cfg.FailSaves) > 0 {
		rec.Hist("message-store-refuses-some-saves")
	}
	if len(c.Cfg.FailNexts) > 0 {
		rec.Hist("counter-store-cannot-number-some-messages")
	}
	rec.Extra("hostile_messages_delivered", int64(delivered))
	if rec.WantSample() && delivered >= 2 {
		var msgs []string
		for i := range c.Steps {
			if c.Steps[i].Op == "raw" {
				msgs = append(msgs, ref.Show(c.Steps[i].Raw))
			}
		}
		rec.Sample(map[string]any{"role": c.Cfg.Role, "hostile_messages": msgs})
	}
	return vs
}

func TestC11Session(t *testing.T) {
	outerT = t
	rec := evid.New("C11/session")
	pbt.Run(t, "C11", rec, genC11Sess, checkC11Sess)
}
