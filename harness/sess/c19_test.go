package sess

import (
	"bytes"
	"fmt"
	"strings"
	"testing"
	"time"

	simplefixgo "github.com/b2broker/simplefix-go"
	"github.com/b2broker/simplefix-go/fix"
	"github.com/b2broker/simplefix-go/session"
	"github.com/b2broker/simplefix-go/session/messages"
	"github.com/b2broker/simplefix-go/storages/memory"
	fixgen "github.com/b2broker/simplefix-go/tests/fix44"
	"github.com/b2broker/simplefix-go/utils"
	"pgregory.net/rapid"

	"verif/harness/evid"
	"verif/harness/pbt"
	"verif/harness/ref"
	"verif/harness/rig"
)

// ---------- C19: stored before sent; handlers in order; a refusal stops it ----------

type HSpec struct {
	Dir        string `json:"dir"`                   // "out" | "in"
	Type       string `json:"type"`                  // "ALL" or a MsgType
	Before     bool   `json:"before"`                // registered before the session is constructed
	AfterLogon bool   `json:"after_logon,omitempty"` // registered while the session is logged on (right before the send step LateAt): behind the handlers the session itself adds at logon
	Mod        int    `json:"mod"`                   // outgoing: refuse when callIndex % Mod == Rem (Mod 0: never)
	Rem        int    `json:"rem"`
	Modify     bool   `json:"modify"` // outgoing: the handler changes the message (TargetCompID) before looking at it
	Body       bool   `json:"body"`   // a modifying handler changes a body field in place through the generated setter (Text of MarketDataRequestReject / Reject / Logout) instead of the header
}

type C19Case struct {
	Script
	Handlers      []HSpec `json:"handlers"`
	EventHandlers int     `json:"event_handlers"`
	// the application removes one of its own handlers (Remove...Handler with the id it was given)
	// right before the send step RemoveAt; -1: no removal
	RefusedFirst  bool    `json:"refused_first,omitempty"` // acceptor: a Logon refused by the application's callback precedes the good one
	HeldReuse     bool    `json:"held_reuse,omitempty"`    // the history contains a stretch in which the peer is not reading (messages stay queued, buffer 10) and the application sends ONE message object 2-3 times with another MDReqID each time (steps named held-...)
	Prior         *Script `json:"prior,omitempty"`         // an earlier session on the same stores, after which the application reset both counters
	LateAt        string  `json:"late_at,omitempty"`       // the send step before which the AfterLogon handlers are registered
	RemoveHandler int     `json:"remove_handler"`
	RemoveAt      string  `json:"remove_at,omitempty"`
}

func genC19(t *rapid.T) *C19Case {
	cfg := genCfg(t, "")
	cfg.Approve = "all"
	c := &C19Case{}
	nf := rapid.IntRange(0, 2).Draw(t, "nFail")
	for i := 0; i < nf; i++ {
		cfg.FailSaves = append(cfg.FailSaves, rapid.IntRange(1, 20).Draw(t, "failSave"))
	}
	c.Cfg = cfg
	types := []string{"ALL", "ALL", rig.TMDReject, rig.THeartbeat, rig.TReject, rig.TLogon, rig.TTestRequest}
	nh := rapid.IntRange(0, 10).Draw(t, "nHandlers")
	for i := 0; i < nh; i++ {
		h := HSpec{
			Dir:    rapid.SampledFrom([]string{"out", "out", "in"}).Draw(t, "hDir"),
			Type:   rapid.SampledFrom(types).Draw(t, "hType"),
			Before: rapid.IntRange(0, 3).Draw(t, "hBefore") == 0,
		}
		if h.Dir == "out" && rapid.IntRange(0, 9).Draw(t, "hModifies") < 2 {
			h.Modify = true
			h.Body = rapid.Bool().Draw(t, "hBody")
		}
		if h.Dir == "in" && rapid.IntRange(0, 9).Draw(t, "hInRefuses") < 2 {
			// an incoming handler that returns false now and then
			h.Mod = rapid.IntRange(1, 4).Draw(t, "hInMod")
			h.Rem = rapid.IntRange(0, h.Mod-1).Draw(t, "hInRem")
		}
		if h.Dir == "out" && rapid.IntRange(0, 9).Draw(t, "hRefuses") < 4 {
			h.Mod = rapid.IntRange(1, 4).Draw(t, "hMod")
			h.Rem = rapid.IntRange(0, h.Mod-1).Draw(t, "hRem")
		}
		c.Handlers = append(c.Handlers, h)
	}
	c.EventHandlers = rapid.IntRange(0, 3).Draw(t, "nEvent")
	c.RemoveHandler = -1
	g := &hgen{t: t, cfg: cfg, inSeq: 1}
	if cfg.Role == "acceptor" && rapid.IntRange(0, 3).Draw(t, "refusedLogonFirst") == 0 {
		// a Logon the application's callback refuses comes first: it, too, is offered to every Logon handler
		c.Cfg.Approve = "user:alice:secret"
		g.cfg.Approve = c.Cfg.Approve
		c.Steps = append(c.Steps, rig.Step{Op: "in", In: g.logon(LogonSpec{HB: "inside", Method: "allowed", Creds: "bad"})})
		c.RefusedFirst = true
	}
	c.Steps = append(c.Steps, rig.Step{Op: "in", In: g.goodLogon(0)})
	n := rapid.IntRange(1, 30).Draw(t, "nSteps")
	// an all-types incoming handler of the application that refuses messages sits in front of the
	// session's own all-types handlers (which note that the peer is alive): with one of those the
	// session legitimately goes on probing and hangs up, so no silence is generated then
	maxKind := 10
	for _, h := range c.Handlers {
		if h.Dir == "in" && h.Type == "ALL" && h.Mod > 0 {
			maxKind = 9
		}
	}
	for i := 0; i < n; i++ {
		switch rapid.IntRange(0, maxKind).Draw(t, "kind") {
		case 10:
			// the peer is silent until the session probes it, then shows it is alive: the
			// message that ends the probing is offered to every handler like any other
			T := int64(tolT(g.hb))
			c.Steps = append(c.Steps, rig.Step{Op: "advance", Dt: T + T/10 + 1e6}, rig.Step{Op: "in", In: g.heartbeat("")})
		case 0, 1, 2, 3, 4:
			c.Steps = append(c.Steps, rig.Step{Op: "send", ID: fmt.Sprintf("app%d", i)})
		case 5, 6:
			c.Steps = append(c.Steps, rig.Step{Op: "in", In: g.testRequest(fmt.Sprintf("t%d", i))})
		case 7:
			if rapid.IntRange(0, 2).Draw(t, "seqReset") == 0 {
				// a SequenceReset (gap fill) from the peer: an inbound message like any other for the handlers
				c.Steps = append(c.Steps, rig.Step{Op: "in", In: &rig.InMsg{Type: rig.TSequenceReset, Seq: g.seq(), Fields: []rig.Tok{rig.F(rig.TagGapFillFlag, "Y"), rig.F(rig.TagNewSeqNo, itoa(g.inSeq))}}})
				break
			}
			c.Steps = append(c.Steps, rig.Step{Op: "in", In: g.app()})
		case 8:
			if rapid.Bool().Draw(t, "resendOrLogon") {
				b := rapid.IntRange(1, 4).Draw(t, "rb")
				c.Steps = append(c.Steps, rig.Step{Op: "in", In: g.resend(b, b+rapid.IntRange(0, 2).Draw(t, "rspan"))})
			} else {
				c.Steps = append(c.Steps, rig.Step{Op: "in", In: g.goodLogon(g.hb)})
			}
		default:
			m := g.heartbeat("")
			if rapid.IntRange(0, 2).Draw(t, "secondMsgType") == 0 {
				// a second field with the MsgType tag further on (a malformed message, or a data field that
				// quotes one): the message's type is its MsgType field, the first one
				m.Fields = append(m.Fields, rig.F(rig.TagMsgType, rapid.SampledFrom([]string{rig.TMDReject, rig.TTestRequest, rig.TReject, "D"}).Draw(t, "secondType")))
			}
			c.Steps = append(c.Steps, rig.Step{Op: "in", In: m})
		}
	}
	c.MaxHB = g.maxHB
	if rapid.IntRange(0, 2).Draw(t, "lateRegistration") == 0 {
		var sends []string
		for _, st := range c.Steps {
			if st.Op == "send" {
				sends = append(sends, st.ID)
			}
		}
		if len(sends) > 0 {
			c.LateAt = sends[rapid.IntRange(0, min(2, len(sends)-1)).Draw(t, "lateAt")]
			for i := range c.Handlers {
				if !c.Handlers[i].Before && rapid.Bool().Draw(t, "hAfterLogon") {
					c.Handlers[i].AfterLogon = true
				}
			}
		}
	}
	if rapid.IntRange(0, 5).Draw(t, "heldReuse") == 0 {
		c.HeldReuse = true
		c.Cfg.Buf = 10
		stretch := []rig.Step{{Op: "wire-hold"}}
		for i := rapid.IntRange(2, 3).Draw(t, "heldSends"); i > 0; i-- {
			stretch = append(stretch, rig.Step{Op: "send", ID: fmt.Sprintf("held-%d-%s", i, rapid.StringMatching(`[a-z]{0,6}`).Draw(t, "heldID"))})
		}
		stretch = append(stretch, rig.Step{Op: "wire-release"})
		pos := rapid.IntRange(1, len(c.Steps)).Draw(t, "heldAt")
		c.Steps = append(c.Steps[:pos:pos], append(stretch, c.Steps[pos:]...)...)
	}
	if rapid.IntRange(0, 4).Draw(t, "withPrior") == 0 {
		pg := &hgen{t: t, cfg: cfg, inSeq: 1}
		p := &Script{Cfg: cfg}
		p.Cfg.FailSaves = nil
		p.Steps = append(p.Steps, rig.Step{Op: "in", In: pg.goodLogon(0)})
		for i := rapid.IntRange(1, 10).Draw(t, "priorSends"); i > 0; i-- {
			p.Steps = append(p.Steps, rig.Step{Op: "send", ID: fmt.Sprintf("old-%d", i)})
		}
		p.MaxHB = pg.maxHB
		c.Prior = p
	}
	if len(c.Handlers) > 0 && rapid.IntRange(0, 3).Draw(t, "removes") == 0 {
		var sends []string
		for _, st := range c.Steps {
			if st.Op == "send" {
				sends = append(sends, st.ID)
			}
		}
		if len(sends) > 0 {
			c.RemoveHandler = rapid.IntRange(0, len(c.Handlers)-1).Draw(t, "removeHandler")
			c.RemoveAt = rapid.SampledFrom(sends).Draw(t, "removeAt")
		}
	}
	return c
}

// setText changes the Text field of the body in place, the way an application
// handler stamps a message it was handed; false if the type has no such field.
func setText(msg simplefixgo.SendingMessage, v string) bool {
	switch m := msg.(type) {
	case *fixgen.MarketDataRequestReject:
		m.SetText(v)
	case *fixgen.Reject:
		m.SetText(v)
	case *fixgen.Logout:
		m.SetText(v)
	default:
		return false
	}
	return true
}

func textOf(msg simplefixgo.SendingMessage) (string, bool) {
	switch m := msg.(type) {
	case *fixgen.MarketDataRequestReject:
		return m.Text(), true
	case *fixgen.Reject:
		return m.Text(), true
	case *fixgen.Logout:
		return m.Text(), true
	}
	return "", false
}

// when: 0 before the session exists, 1 after Session.Run and before any traffic, 2 while logged on.
func (h HSpec) when() int {
	switch {
	case h.Before:
		return 0
	case h.AfterLogon:
		return 2
	}
	return 1
}

func checkC19(c *C19Case, rec *evid.Rec) (vs []pbt.Violation) {
	calls := make([]int, len(c.Handlers))
	ids := make([]int64, len(c.Handlers))
	var hRef *simplefixgo.DefaultHandler
	var logRef *rig.EventLog
	register := func(when int) func(h *simplefixgo.DefaultHandler, log *rig.EventLog) {
		return func(h *simplefixgo.DefaultHandler, log *rig.EventLog) {
			hRef, logRef = h, log
			for i := range c.Handlers {
				i := i
				hs := c.Handlers[i]
				if hs.when() != when {
					continue
				}
				mt := hs.Type
				if mt == "ALL" {
					mt = simplefixgo.AllMsgTypes
				}
				if hs.Dir == "out" {
					ids[i] = h.HandleOutgoing(mt, func(msg simplefixgo.SendingMessage) bool {
						if hs.Modify {
							if !(hs.Body && setText(msg, fmt.Sprintf("MOD%d", i))) {
								msg.HeaderBuilder().SetFieldTargetCompID(fmt.Sprintf("MOD%d", i))
							}
						}
						b, _ := msg.ToBytes()
						k := calls[i]
						calls[i]++
						refuse := hs.Mod > 0 && k%hs.Mod == hs.Rem
						log.Add(rig.Event{Kind: "handler:out", Name: fmt.Sprint(i), Seq: msg.HeaderBuilder().MsgSeqNum(), Err: refuse, Bytes: append([]byte(nil), b...)})
						if txt, ok := textOf(msg); ok {
							// what the handler reads from the object it was handed
							log.Add(rig.Event{Kind: "handler:view", Name: fmt.Sprint(i), Seq: msg.HeaderBuilder().MsgSeqNum(), Bytes: []byte(txt)})
						}
						return !refuse
					})
				} else {
					ids[i] = h.HandleIncoming(mt, func(data []byte) bool {
						k := calls[i]
						calls[i]++
						refuse := hs.Mod > 0 && k%hs.Mod == hs.Rem
						log.Add(rig.Event{Kind: "handler:in", Name: fmt.Sprint(i), Err: refuse, Bytes: append([]byte(nil), data...)})
						return !refuse
					})
				}
			}
		}
	}
	hooks := &rig.Hooks{BeforeRun: register(0)}
	var heldObj *fixgen.MarketDataRequestReject
	if c.HeldReuse {
		heldObj = fixgen.NewMarketDataRequestReject()
	}
	if c.RemoveHandler >= 0 || c.HeldReuse || c.LateAt != "" {
		hooks.AppMessage = func(st *rig.Step) messages.Message {
			if c.LateAt != "" && st.ID == c.LateAt && hRef != nil {
				register(2)(hRef, logRef)
				logRef.Add(rig.Event{Kind: "after-logon-handlers-registered"})
			}
			if heldObj != nil && strings.HasPrefix(st.ID, "held-") {
				heldObj.SetMDReqID(st.ID) // the application's one message object, used again
				return heldObj
			}
			if c.RemoveHandler >= 0 && st.ID == c.RemoveAt && hRef != nil {
				hs := c.Handlers[c.RemoveHandler]
				mt := hs.Type
				if mt == "ALL" {
					mt = simplefixgo.AllMsgTypes
				}
				if hs.Dir == "out" {
					_ = hRef.RemoveOutgoingHandler(mt, ids[c.RemoveHandler])
				} else {
					_ = hRef.RemoveIncomingHandler(mt, ids[c.RemoveHandler])
				}
				logRef.Add(rig.Event{Kind: "handler-removed", Name: fmt.Sprint(c.RemoveHandler)})
			}
			return rig.NewApp(st.ID)
		}
	}
	hooks.AfterRun = func(h *simplefixgo.DefaultHandler, s *session.Session, log *rig.EventLog) {
		register(1)(h, log)
		log.Add(rig.Event{Kind: "late-handlers-registered"})
	}
	// event handlers are registered before Session.Run's own (KeepSession runs right after construction)
	hooks.KeepSession = func(s *session.Session, h *simplefixgo.DefaultHandler) {
		for i := 0; i < c.EventHandlers; i++ {
			i := i
			s.OnChangeState(utils.EventLogon, func() bool { evOrder = append(evOrder, i); return true })
		}
	}
	evOrder = nil
	inner := memory.NewStorage()
	hooks.Inner = inner
	if c.Prior != nil {
		ptr := rig.RunDirect(outerT, c.Prior.Cfg, c.Prior.Steps, &rig.Hooks{Inner: inner}, c.Prior.MaxHB)
		if ptr.Trouble != "" {
			return []pbt.Violation{pbt.V("harness", "prior session: %s", ptr.Trouble)}
		}
		_ = inner.ResetSeqNum(fix.StorageID{Side: fix.Outgoing})
		_ = inner.ResetSeqNum(fix.StorageID{Side: fix.Incoming})
		rec.Hist("store-reused-after-counter-reset")
	}
	tr := rig.RunDirect(outerT, c.Cfg, c.Steps, hooks, c.MaxHB)
	if tr.Trouble != "" {
		return []pbt.Violation{pbt.V("harness", "%s", tr.Trouble)}
	}
	if tr.RunPanic != "" {
		return []pbt.Violation{pbt.V("inbound-panic", "handler.Run panicked: %s", tr.RunPanic)}
	}
	// registration order: handlers registered before the session is constructed, then the others
	var regOrder []int
	for i, hs := range c.Handlers {
		if hs.Before {
			regOrder = append(regOrder, i)
		}
	}
	for i, hs := range c.Handlers {
		if hs.when() == 1 {
			regOrder = append(regOrder, i)
		}
	}
	for i, hs := range c.Handlers {
		if hs.when() == 2 {
			regOrder = append(regOrder, i)
		}
	}
	evs := tr.Log.Since(0)
	// once the application has removed one of its handlers, that handler may or may
	// not be called any more (the property says nothing about removal); every other
	// handler, the session's own included, must go on as before
	removedAt := -1
	for _, e := range evs {
		if e.Kind == "handler-removed" {
			removedAt = e.Order
		}
	}
	dropRemoved := func(list []int, at int) []int {
		if removedAt < 0 || at < removedAt {
			return list
		}
		var out []int
		for _, i := range list {
			if i != c.RemoveHandler {
				out = append(out, i)
			}
		}
		return out
	}
	anyModify := false
	for _, hs := range c.Handlers {
		anyModify = anyModify || hs.Modify
	}
	// --- outbound: group by sequence number ---
	type attempt struct {
		saveOK, saveFail bool
		saveAt           int
		handlerCalls     []rig.Event
		views            []rig.Event
		wire             []byte
		wireAt           int
		msgType          string
	}
	att := map[int]*attempt{}
	get := func(n int) *attempt {
		if att[n] == nil {
			att[n] = &attempt{saveAt: -1, wireAt: -1}
		}
		return att[n]
	}
	var sendReturns []rig.Event
	var sendCalls []int
	firstWire := map[int]bool{}
	// while a ResendRequest is being served, events under numbers allocated
	// before it belong to retransmissions (possibly of messages that never made
	// it to the wire), not to the original attempts
	inResend, maxSeq, resendFloor := false, 0, 0
	for _, e := range evs {
		switch e.Kind {
		case "inject":
			t, _ := ref.Lookup(e.Bytes, rig.TagMsgType)
			inResend = t == rig.TResendRequest
			resendFloor = maxSeq
		case "send-call":
			inResend = false
		}
		if e.Kind == "store:save" || e.Kind == "handler:out" {
			if e.Seq > maxSeq {
				maxSeq = e.Seq
			}
			if inResend && e.Seq <= resendFloor {
				if e.Kind == "store:save" {
					if own, ok := ref.Lookup(e.Bytes, rig.TagMsgSeqNum); ok && own != fmt.Sprint(e.Seq) && len(vs) == 0 {
						vs = append(vs, pbt.V("saved-under-wrong-number", "a retransmitted message carrying MsgSeqNum %s was saved under number %d: %s", own, e.Seq, ref.Show(e.Bytes)))
					}
				}
				continue
			}
		}
		if e.Kind == "wire" && inResend {
			if n := atoi(rig.Decode(e.Bytes).Seq); n <= resendFloor {
				continue
			}
		}
		switch e.Kind {
		case "store:save":
			// saved under its own sequence number (also when a retransmission is re-saved)
			if own, ok := ref.Lookup(e.Bytes, rig.TagMsgSeqNum); ok && own != fmt.Sprint(e.Seq) && len(vs) == 0 {
				vs = append(vs, pbt.V("saved-under-wrong-number", "a message carrying MsgSeqNum %s was saved under number %d: %s", own, e.Seq, ref.Show(e.Bytes)))
			}
			// ... and under the session's own identity: the Sender/Target of the StorageID are
			// the identifiers the message itself carries (not judged when a handler rewrites
			// identifiers before the store sees the message)
			if !anyModify && len(vs) == 0 {
				s49, _ := ref.Lookup(e.Bytes, rig.TagSenderCompID)
				t56, _ := ref.Lookup(e.Bytes, rig.TagTargetCompID)
				if e.Name != s49+"|"+t56 {
					vs = append(vs, pbt.V("saved-under-wrong-identity", "message #%d carrying SenderCompID %q / TargetCompID %q was saved under the StorageID (sender|target) %q", e.Seq, s49, t56, e.Name))
				}
			}
			a := get(e.Seq)
			if firstWire[e.Seq] {
				continue // re-save during a retransmission
			}
			if e.Err {
				a.saveFail = true
			} else {
				a.saveOK = true
			}
			a.saveAt = e.Order
			if t, ok := ref.Lookup(e.Bytes, rig.TagMsgType); ok {
				a.msgType = t
			}
		case "handler:out":
			if firstWire[e.Seq] {
				continue
			}
			a := get(e.Seq)
			a.handlerCalls = append(a.handlerCalls, e)
			if t, ok := ref.Lookup(e.Bytes, rig.TagMsgType); ok {
				a.msgType = t
			}
		case "handler:view":
			if firstWire[e.Seq] {
				continue
			}
			a := get(e.Seq)
			a.views = append(a.views, e)
		case "wire":
			n := atoi(rig.Decode(e.Bytes).Seq)
			if firstWire[n] {
				continue // retransmission
			}
			firstWire[n] = true
			a := get(n)
			a.wire, a.wireAt = e.Bytes, e.Order
		case "send-return":
			sendReturns = append(sendReturns, e)
		case "send-call":
			sendCalls = append(sendCalls, e.Order)
		}
	}
	lateAt, afterLogonAt := -1, -1
	for _, e := range evs {
		if e.Kind == "late-handlers-registered" {
			lateAt = e.Order
		}
		if e.Kind == "after-logon-handlers-registered" {
			afterLogonAt = e.Order
		}
	}
	active := func(i int, at int) bool {
		switch c.Handlers[i].when() {
		case 0:
			return true
		case 2:
			return afterLogonAt >= 0 && at > afterLogonAt
		}
		return lateAt >= 0 && at > lateAt
	}
	refusals, failures := 0, 0
	for n, a := range att {
		at := a.saveAt
		if len(a.handlerCalls) > 0 && (at < 0 || a.handlerCalls[0].Order < at) {
			at = a.handlerCalls[0].Order
		}
		if at < 0 {
			at = a.wireAt
		}
		// expected handler sequence for this message
		var want []int
		for _, i := range regOrder {
			if hs := c.Handlers[i]; hs.Dir == "out" && hs.Type == "ALL" && active(i, at) {
				want = append(want, i)
			}
		}
		for _, i := range regOrder {
			if hs := c.Handlers[i]; hs.Dir == "out" && hs.Type != "ALL" && hs.Type == a.msgType && active(i, at) {
				want = append(want, i)
			}
		}
		var got []int
		refused := false
		for k, hc := range a.handlerCalls {
			got = append(got, atoi(hc.Name))
			if refused {
				vs = append(vs, pbt.V("handler-after-refusal", "message #%d: handler %s ran after an earlier handler had refused the message", n, hc.Name))
			}
			if hc.Err {
				refused = true
				refusals++
			}
			_ = k
		}
		got, want = dropRemoved(got, at), dropRemoved(want, at)
		// got must be a prefix of want (complete unless refused / save failed)
		for k := range got {
			if k >= len(want) || got[k] != want[k] {
				vs = append(vs, pbt.V("handler-order", "message #%d (type %s): outgoing handlers ran in order %v, registration order prescribes %v (all-types first, then the type's)", n, a.msgType, got, want))
				break
			}
		}
		if a.saveFail {
			failures++
		}
		if a.wire != nil {
			if !a.saveOK || a.saveAt > a.wireAt {
				vs = append(vs, pbt.V("sent-without-save", "message #%d left the session without a prior successful Save under its number: %s", n, ref.Show(a.wire)))
			}
			if a.saveFail {
				vs = append(vs, pbt.V("sent-despite-save-failure", "message #%d was transmitted although saving it failed", n))
			}
			if refused {
				vs = append(vs, pbt.V("sent-despite-refusal", "message #%d was transmitted although an outgoing handler refused it: %s", n, ref.Show(a.wire)))
			}
			if len(got) != len(want) && len(vs) == 0 {
				vs = append(vs, pbt.V("handler-skipped", "message #%d (type %s) was transmitted but only handlers %v of %v ran", n, a.msgType, got, want))
			}
			// every handler that ran after the last modifying one saw exactly the transmitted bytes
			from := 0
			for k, hc := range a.handlerCalls {
				if c.Handlers[atoi(hc.Name)].Modify {
					from = k
				}
			}
			for _, hc := range a.handlerCalls[from:] {
				if !bytes.Equal(hc.Bytes, a.wire) {
					vs = append(vs, pbt.V("handler-saw-different-bytes", "message #%d: outgoing handler %s saw %s, transmitted %s", n, hc.Name, ref.Show(hc.Bytes), ref.Show(a.wire)))
					break
				}
			}
			// and what they read from the object (the Text field) is what the wire carries
			vfrom := 0
			for k, hv := range a.views {
				if hs := c.Handlers[atoi(hv.Name)]; hs.Modify && hs.Body {
					vfrom = k
				}
			}
			wireText, _ := ref.Lookup(a.wire, rig.TagText)
			for _, hv := range a.views[min(vfrom, len(a.views)):] {
				if string(hv.Bytes) != wireText {
					vs = append(vs, pbt.V("handler-read-different-field", "message #%d: outgoing handler %s read Text=%q from the message it was handed, the transmitted message carries Text=%q: %s", n, hv.Name, hv.Bytes, wireText, ref.Show(a.wire)))
					break
				}
			}
		} else if !refused && !a.saveFail && len(a.handlerCalls)+b2i(a.saveOK) > 0 {
			vs = append(vs, pbt.V("not-sent-without-reason", "message #%d was saved and accepted by every handler but never transmitted", n))
		}
	}
	// what the store holds under a transmitted message's number is that message (not judged
	// with modifying handlers: a retransmission passes through them again, and the bundled
	// store keeps the object, so the stored message legitimately moves on)
	if len(vs) == 0 && !anyModify && !c.HeldReuse {
		for n, a := range att {
			if a.wire == nil || a.saveFail || !a.saveOK {
				continue
			}
			ms, err := inner.Messages(fix.StorageID{Side: fix.Outgoing}, n, n)
			if err != nil || len(ms) != 1 {
				vs = append(vs, pbt.V("stored-message-missing", "message #%d was transmitted after a successful Save, but the store answers (%v, %d messages) for that number", n, err, len(ms)))
				break
			}
			if b, _ := ms[0].ToBytes(); !bytes.Equal(b, a.wire) {
				vs = append(vs, pbt.V("stored-message-differs", "message #%d: the store holds %s under that number, transmitted was %s", n, ref.Show(b), ref.Show(a.wire)))
				break
			}
		}
	}
	// Send's error result, per "send" step
	for i := range c.Steps {
		if c.Steps[i].Op != "send" {
			continue
		}
		res := tr.Steps[i]
		emitted := len(res.Out) > 0
		if strings.HasPrefix(c.Steps[i].ID, "held-") {
			continue // nothing can appear on the wire while the peer is not reading
		}
		if emitted == (res.SendErr != "") {
			vs = append(vs, pbt.V("send-result", "step %d: Send returned error %q but transmitted=%v", i, res.SendErr, emitted))
		}
	}
	// --- inbound: all-types then own type, registration order ---
	injects, inRefusals := 0, 0
	for idx, e := range evs {
		if e.Kind != "inject" {
			continue
		}
		injects++
		typ, _ := ref.Lookup(e.Bytes, rig.TagMsgType)
		var want []int
		for _, i := range regOrder {
			if hs := c.Handlers[i]; hs.Dir == "in" && hs.Type == "ALL" && active(i, e.Order) {
				want = append(want, i)
			}
		}
		for _, i := range regOrder {
			if hs := c.Handlers[i]; hs.Dir == "in" && hs.Type != "ALL" && hs.Type == typ && active(i, e.Order) {
				want = append(want, i)
			}
		}
		var got []int
		refusedBy := map[int]bool{}
		for _, f := range evs[idx+1:] {
			if f.Kind == "inject" {
				break
			}
			if f.Kind == "handler:in" && bytes.Equal(f.Bytes, e.Bytes) {
				got = append(got, atoi(f.Name))
				if f.Err {
					refusedBy[atoi(f.Name)] = true
					inRefusals++
				}
			}
		}
		// a handler that returns false ends its own section (all-types / the type's): what
		// follows it in that section is not judged. The other section is: a message refused
		// by an all-types handler is still offered to the handlers of its type.
		cut := func(list []int) (out []int) {
			cutAll, cutType := false, false
			for _, i := range list {
				all := c.Handlers[i].Type == "ALL"
				if (all && cutAll) || (!all && cutType) {
					continue
				}
				out = append(out, i)
				if refusedBy[i] {
					if all {
						cutAll = true
					} else {
						cutType = true
					}
				}
			}
			return out
		}
		got, want = dropRemoved(cut(got), e.Order), dropRemoved(cut(want), e.Order)
		if fmt.Sprint(got) != fmt.Sprint(want) {
			vs = append(vs, pbt.V("incoming-handler-order", "inbound %s was offered to incoming handlers %v, expected %v (all-types in registration order, then the type's)", typ, got, want))
		}
	}
	// --- event handlers in registration order ---
	for k := 0; k+1 < len(evOrder); k++ {
		if evOrder[k] > evOrder[k+1] && evOrder[k+1] != 0 {
			vs = append(vs, pbt.V("event-handler-order", "logon event handlers fired in order %v", evOrder))
			break
		}
	}
	outPool, inPool := 0, 0
	for _, hs := range c.Handlers {
		if hs.Dir == "out" {
			outPool++
		} else {
			inPool++
		}
	}
	nontrivial := (refusals > 0 || failures > 0) && (outPool >= 2 || inPool >= 2)
	abstract := c.Cfg.Role + fmt.Sprint(c.Cfg.FailSaves)
	for _, hs := range c.Handlers {
		abstract += fmt.Sprintf("|%s:%s:%v:%d/%d:%v", hs.Dir, hs.Type, hs.Before, hs.Rem, hs.Mod, hs.Modify)
	}
	rec.Case(evid.FPs(abstract), nontrivial)
	if refusals > 0 {
		rec.Hist("with-refusal")
	}
	if failures > 0 {
		rec.Hist("with-save-failure")
	}
	for _, hs := range c.Handlers {
		if hs.Modify && hs.Body {
			rec.Hist("body-modifying-outgoing-handler")
		}
		if hs.Modify {
			rec.Hist("modifying-outgoing-handler")
			break
		}
	}
	if removedAt >= 0 {
		rec.Hist("application-removes-a-handler")
	}
	if inRefusals > 0 {
		rec.Hist("incoming-handler-refuses")
	}
	if c.HeldReuse {
		rec.Hist("one-object-sent-repeatedly-while-peer-not-reading")
	}
	if c.RefusedFirst {
		rec.Hist("refused-logon-first")
	}
	if afterLogonAt >= 0 {
		rec.Hist("handlers-registered-while-logged-on")
		probed, registered := false, false
		for i := range c.Steps {
			if c.Steps[i].Op == "send" && c.Steps[i].ID == c.LateAt {
				registered = true
			}
			if c.Steps[i].Op == "advance" && registered && i+1 < len(tr.Steps) && tr.Steps[i+1].Delivered {
				probed = true
			}
		}
		if probed {
			rec.Hist("probe-answered-after-late-registration")
		}
	}
	rec.Hist(fmt.Sprintf("out-handlers=%d", outPool))
	rec.Hist(fmt.Sprintf("in-handlers=%d", inPool))
	rec.Extra("outbound_attempts", int64(len(att)))
	rec.Extra("inbound_messages", int64(injects))
	if rec.WantSample() && nontrivial {
		rec.Sample(map[string]any{"handlers": c.Handlers, "fail_saves": c.Cfg.FailSaves, "steps": len(c.Steps), "role": c.Cfg.Role})
	}
	if len(vs) > 3 {
		vs = vs[:3]
	}
	return vs
}

var evOrder []int

func b2i(b bool) int {
	if b {
		return 1
	}
	return 0
}

func TestC19(t *testing.T) {
	outerT = t
	rec := evid.New("C19")
	pbt.Run(t, "C19", rec, genC19, checkC19)
}

// ---- C19, inbound clause under a backlog: every inbound message is offered to the handlers ----
//
// TestC19 delivers one message at a time. Here a slow application handler lets a
// backlog build up in the handler's queue (buffer 1-10, bursts of 1-25 messages),
// and the handler is then stopped the ways the library itself stops it: Stop()
// (context cancelled) or the connection-closed error. Every message that
// ServeIncoming had accepted before that instant must still be offered, once,
// in arrival order, to the all-types handler and to its type's handler.

type C19DrainCase struct {
	Script
	SlowNs int64  `json:"slow_ns"`
	Async  bool   `json:"async,omitempty"`
	End    string `json:"end"` // handlerstop | connclosed | teardown | stopwitherror | stopwithnil
}

func genC19Drain(t *rapid.T) *C19DrainCase {
	cfg := genCfg(t, "")
	cfg.Approve = "all"
	cfg.Buf = rapid.SampledFrom([]int{1, 2, 5, 10}).Draw(t, "buf19")
	cfg.HBMin, cfg.HBMax = 60, 120
	cfg.HBInt = rapid.IntRange(60, 120).Draw(t, "hb19")
	g := &hgen{t: t, cfg: cfg, inSeq: 1}
	c := &C19DrainCase{SlowNs: rapid.SampledFrom([]int64{1e6, 50e6, 1e9}).Draw(t, "slowNs"),
		End: rapid.SampledFrom([]string{"handlerstop", "connclosed", "teardown", "stopwitherror", "stopwithnil"}).Draw(t, "end")}
	c.Cfg = cfg
	c.Steps = append(c.Steps, rig.Step{Op: "in", In: g.goodLogon(0)})
	nb := rapid.IntRange(1, 3).Draw(t, "bursts")
	for b := 0; b < nb; b++ {
		var burst []*rig.InMsg
		for i := rapid.IntRange(1, 25).Draw(t, "burstLen"); i > 0; i-- {
			switch rapid.IntRange(0, 2).Draw(t, "burstKind") {
			case 0:
				burst = append(burst, g.heartbeat(""))
			case 1:
				burst = append(burst, g.testRequest(fmt.Sprintf("b%d-%d", b, i)))
			default:
				burst = append(burst, g.app())
			}
		}
		c.Steps = append(c.Steps, rig.Step{Op: "burst", Burst: burst})
		if b+1 < nb && rapid.Bool().Draw(t, "pause") {
			c.Steps = append(c.Steps, rig.Step{Op: "advance", Dt: rapid.Int64Range(1, 3*c.SlowNs).Draw(t, "pauseDt")})
		}
	}
	if c.End != "teardown" {
		// (not with Stop(): that cancels the handler's context, and a message still waiting in ServeIncoming is then dropped by design)
		if c.End != "handlerstop" && rapid.IntRange(0, 2).Draw(t, "asyncPump") == 0 {
			// the last burst is fed by the connection's own pump goroutine: when the end comes a message
			// may be waiting in ServeIncoming (with buffer 0: not yet in any queue)
			c.Steps[len(c.Steps)-1].Kind = "async"
			c.Async = true
			c.Cfg.Buf = rapid.SampledFrom([]int{0, 0, 1, 2, 10}).Draw(t, "bufAsync")
		}
		c.Steps = append(c.Steps, rig.Step{Op: c.End})
		if c.Async {
			// the application lets the handler finish what it holds before it tears anything down
			c.Steps = append(c.Steps, rig.Step{Op: "advance", Dt: 40 * c.SlowNs})
		}
	}
	c.MaxHB = g.maxHB
	return c
}

func checkC19Drain(c *C19DrainCase, rec *evid.Rec) (vs []pbt.Violation) {
	hooks := &rig.Hooks{BeforeRun: func(h *simplefixgo.DefaultHandler, log *rig.EventLog) {
		h.HandleIncoming(simplefixgo.AllMsgTypes, func(data []byte) bool {
			log.Add(rig.Event{Kind: "handler:in", Name: "all", Bytes: append([]byte(nil), data...)})
			time.Sleep(time.Duration(c.SlowNs))
			return true
		})
		for _, mt := range []string{rig.THeartbeat, rig.TTestRequest, rig.TMDRequest} {
			mt := mt
			h.HandleIncoming(mt, func(data []byte) bool {
				log.Add(rig.Event{Kind: "handler:in", Name: "type:" + mt, Bytes: append([]byte(nil), data...)})
				return true
			})
		}
	}}
	tr := rig.RunDirect(outerT, c.Cfg, c.Steps, hooks, c.MaxHB)
	if tr.Trouble != "" {
		return []pbt.Violation{pbt.V("harness", "%s", tr.Trouble)}
	}
	if tr.RunPanic != "" {
		return []pbt.Violation{pbt.V("inbound-panic", "handler.Run panicked: %s", tr.RunPanic)}
	}
	evs := tr.Log.Since(0)
	var injected [][]byte
	offeredAll := map[string]int{}
	offeredType := map[string]int{}
	var order []string
	backlog, maxBacklog := 0, 0
	for _, e := range evs {
		switch {
		case e.Kind == "inject":
			injected = append(injected, e.Bytes)
			backlog++
			if backlog > maxBacklog {
				maxBacklog = backlog
			}
		case e.Kind == "handler:in" && e.Name == "all":
			offeredAll[string(e.Bytes)]++
			order = append(order, string(e.Bytes))
			backlog--
		case e.Kind == "handler:in":
			offeredType[string(e.Bytes)]++
		}
	}
	pendingAtEnd := 0
	// backlog at the instant of the stop: injected before, offered after
	stopAt := -1
	for i, e := range evs {
		if e.Kind == "step" && (e.Name == "handlerstop" || e.Name == "connclosed" || e.Name == "stopwitherror" || e.Name == "stopwithnil") {
			stopAt = i
		}
	}
	_ = stopAt
	injectedAt := map[string]int{}
	for i, e := range evs {
		if e.Kind == "inject" {
			injectedAt[string(e.Bytes)] = i
		}
	}
	for k, b := range injected {
		typ, _ := ref.Lookup(b, rig.TagMsgType)
		if c.Async && stopAt >= 0 && injectedAt[string(b)] > stopAt {
			// handed to ServeIncoming by the pump after the end had been requested: it may or may not make it
			if offeredAll[string(b)] > 1 {
				vs = append(vs, pbt.V("inbound-offered-twice:"+c.End, "inbound message %d (%s) was offered %d times to the all-types handler", k+1, typ, offeredAll[string(b)]))
			}
			continue
		}
		if offeredAll[string(b)] != 1 {
			vs = append(vs, pbt.V("inbound-not-offered:"+c.End, "inbound message %d of %d (%s) was accepted by ServeIncoming but offered %d times to the all-types handler (slow handler %v, buffer %d, handler ended by %s): %s", k+1, len(injected), typ, offeredAll[string(b)], time.Duration(c.SlowNs), c.Cfg.Buf, c.End, ref.Show(b)))
			break
		}
		if (typ == rig.THeartbeat || typ == rig.TTestRequest || typ == rig.TMDRequest) && offeredType[string(b)] != 1 {
			vs = append(vs, pbt.V("inbound-not-offered-to-type:"+c.End, "inbound message %d of %d (%s) was offered %d times to its type's handler (handler ended by %s): %s", k+1, len(injected), typ, offeredType[string(b)], c.End, ref.Show(b)))
			break
		}
	}
	if len(vs) == 0 {
		for k := range order {
			if k < len(injected) && order[k] != string(injected[k]) {
				vs = append(vs, pbt.V("inbound-reordered", "inbound messages were offered to the all-types handler in another order than they arrived (position %d)", k+1))
				break
			}
		}
	}
	_ = pendingAtEnd
	nontrivial := maxBacklog >= 2
	rec.Case(evid.FPs(fmt.Sprintf("%s|%d|%d|%s|%d", c.Cfg.Role, c.Cfg.Buf, c.SlowNs, c.End, len(injected))), nontrivial)
	rec.Hist("drain:end:" + c.End)
	if c.Async {
		rec.Hist("drain:pump-on-its-own-goroutine")
	}
	if maxBacklog >= 2 {
		rec.Hist("drain:backlog>=2")
	}
	if rec.WantSample() && nontrivial {
		rec.Sample(map[string]any{"engine": "inbound backlog", "role": c.Cfg.Role, "buffer": c.Cfg.Buf, "slow_handler": time.Duration(c.SlowNs).String(), "messages": len(injected), "ended_by": c.End, "max_backlog": maxBacklog})
	}
	return vs
}

func TestC19Drain(t *testing.T) {
	outerT = t
	rec := evid.New("C19/drain")
	pbt.Run(t, "C19", rec, genC19Drain, checkC19Drain)
}
