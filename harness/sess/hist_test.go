package sess

import (
	"fmt"
	"strconv"

	"pgregory.net/rapid"

	"verif/harness/gen"
	"verif/harness/ref"
	"verif/harness/rig"
)

// Script is the case type of the history-based session checks.
type Script struct {
	Cfg   rig.Cfg    `json:"cfg"`
	Steps []rig.Step `json:"steps"`
	MaxHB int        `json:"max_hb"`
}

// hgen carries the shadow state used only to steer the distribution.
type hgen struct {
	t      *rapid.T
	cfg    rig.Cfg
	inSeq  int // the peer's next sequence number
	logged bool
	sent   int // guess of how many messages the library has sent
	maxHB  int
	hb     int // negotiated interval (guess)
}

func genCfg(t *rapid.T, role string) rig.Cfg {
	if role == "" {
		role = rapid.SampledFrom([]string{"acceptor", "initiator"}).Draw(t, "role")
	}
	min := rapid.IntRange(1, 60).Draw(t, "hbMin")
	max := min + rapid.IntRange(0, 60).Draw(t, "hbSpan")
	allMethods := [][]string{{"0"}, {"0", "1"}, {"1"}, {"2", "0"}, {"0", "1", "2"}}
	cfg := rig.Cfg{
		Role: role, HBMin: min, HBMax: max,
		Methods:        rapid.SampledFrom(allMethods).Draw(t, "methods"),
		Approve:        rapid.SampledFrom([]string{"all", "all", "user:alice:secret", "none"}).Draw(t, "approve"),
		CloseTimeoutMs: rapid.SampledFrom([]int64{1000, 0, 1, 30000}).Draw(t, "closeTimeout"),
		Buf:            rapid.SampledFrom([]int{0, 1, 10}).Draw(t, "buf"),
		Sender:         "LIB", Target: "PEER", User: "alice", Pass: "secret",
	}
	cfg.HBInt = rapid.IntRange(min, max).Draw(t, "hbInt")
	if role == "initiator" {
		cfg.CustomLogon = rapid.IntRange(0, 3).Draw(t, "customLogon") == 0
		cfg.LogonFailsOnce = cfg.CustomLogon && rapid.Bool().Draw(t, "logonFailsOnce")
	}
	return cfg
}

func itoa(n int) string { return strconv.Itoa(n) }

func (g *hgen) seq() string {
	s := itoa(g.inSeq)
	g.inSeq++
	return s
}

// LogonSpec describes a Logon to generate.
type LogonSpec struct {
	HB     string // "below","min","inside","max","above","text","absent"
	Method string // "allowed","disallowed","absent"
	Creds  string // "good","bad"
}

func (g *hgen) logon(spec LogonSpec) *rig.InMsg {
	c := g.cfg
	var fields []rig.Tok
	allowed := map[string]bool{}
	for _, m := range c.Methods {
		allowed[m] = true
	}
	switch spec.Method {
	case "allowed":
		fields = append(fields, rig.F(rig.TagEncryptMethod, rapid.SampledFrom(c.Methods).Draw(g.t, "method")))
	case "padded":
		// an allowed method with a blank around it: another value, not in the set
		mth := rapid.SampledFrom(c.Methods).Draw(g.t, "methodPadded")
		fields = append(fields, rig.F(rig.TagEncryptMethod, rapid.SampledFrom([]string{mth + " ", " " + mth, mth + "\t"}).Draw(g.t, "methodPad")))
	case "disallowed":
		for _, m := range []string{"0", "1", "2", "3", "7"} {
			if !allowed[m] {
				fields = append(fields, rig.F(rig.TagEncryptMethod, m))
				break
			}
		}
	}
	hb := -1
	switch spec.HB {
	case "below":
		hb = c.HBMin - 1 - rapid.IntRange(0, 3).Draw(g.t, "hbBelow")
	case "min":
		hb = c.HBMin
	case "inside":
		hb = rapid.IntRange(c.HBMin, min(c.HBMax, c.HBMin+3600)).Draw(g.t, "hbInside")
	case "max":
		hb = min(c.HBMax, c.HBMin+3600)
	case "above":
		hb = c.HBMax + 1 + rapid.IntRange(0, 100).Draw(g.t, "hbAbove")
		if c.HBMax < 1000000 && rapid.IntRange(0, 3).Draw(g.t, "hbWraps") == 0 {
			// far above the limit: a number of seconds that, counted in nanoseconds, wraps around 2^64 (or 2^63)
			// to something that looks like an interval inside the limits
			hb = rapid.SampledFrom([]int{18446744074, 9223372037}).Draw(g.t, "hbWrapBase") + rapid.IntRange(c.HBMin, c.HBMax).Draw(g.t, "hbWrapInside")
		}
	case "huge":
		hb = rapid.SampledFrom([]int{9223372037, 9223372040, 10000000000}).Draw(g.t, "hbHuge") // inside limits that allow anything, yet not a length of time
	case "text":
		fields = append(fields, rig.F(rig.TagHeartBtInt, rapid.SampledFrom([]string{"x", "3O", "1.5", " 30", "0x1E", "1_0", "0b11", "0o17", "1e1"}).Draw(g.t, "hbText")))
	}
	if spec.HB != "text" && spec.HB != "absent" {
		// decimal digits with an optional sign; now and then with leading zeros or a plus sign
		txt := itoa(hb)
		if hb >= 0 {
			switch rapid.IntRange(0, 9).Draw(g.t, "hbSpelling") {
			case 0:
				txt = "0" + txt
			case 1:
				txt = "00" + txt
			case 2:
				txt = "+" + txt
			}
		}
		fields = append(fields, rig.F(rig.TagHeartBtInt, txt))
	}
	user, pass := "alice", "secret"
	if spec.Creds == "bad" {
		user, pass = rapid.SampledFrom([]string{"mallory", "alice"}).Draw(g.t, "badUser"), "wrong"
	}
	if spec.Creds == "padded" {
		// the right credentials with a blank around one of them: not the right credentials
		if rapid.Bool().Draw(g.t, "padUser") {
			user = rapid.SampledFrom([]string{"alice ", " alice"}).Draw(g.t, "paddedUser")
		} else {
			pass = rapid.SampledFrom([]string{"secret ", " secret", "secret\n"}).Draw(g.t, "paddedPass")
		}
	}
	fields = append(fields, rig.F(rig.TagUsername, user), rig.F(rig.TagPassword, pass))
	if hb > g.maxHB && hb <= 100000 {
		g.maxHB = hb
	}
	m := &rig.InMsg{Type: rig.TLogon, Seq: g.seq(), Fields: fields, Note: fmt.Sprintf("logon hb=%s method=%s creds=%s", spec.HB, spec.Method, spec.Creds)}
	if (spec.HB == "below" || spec.HB == "above" || spec.Method == "disallowed" || spec.Method == "padded" || spec.Creds == "bad") && rapid.IntRange(0, 4).Draw(g.t, "seqZero") == 0 {
		// a Logon that is refused for what it asks for, numbered 0: the Reject quotes that number like any other
		m.Seq = "0"
		m.Note += " seq=0"
	}
	switch rapid.IntRange(0, 11).Draw(g.t, "logonExtra") {
	case 0:
		m.Fields = append(m.Fields, rig.F(rig.TagResetSeqNumFlag, "Y")) // changes nothing about who may log on
	case 1:
		// the Logon's repeating group (NoMsgTypes), announced correctly
		m.Fields = append(m.Fields, rig.F("384", "2"), rig.F("372", "D"), rig.F("385", "S"), rig.F("372", "8"), rig.F("385", "R"))
	case 2:
		// ... or with a count that does not match its entries: not a well-formed Logon
		m.Fields = append(m.Fields, rig.F("384", rapid.SampledFrom([]string{"1", "0", "3"}).Draw(g.t, "wrongCount")), rig.F("372", "D"), rig.F("385", "S"), rig.F("372", "8"), rig.F("385", "R"))
		m.Note += " wrong-group-count"
	case 3:
		// a numeric header field that is not a number
		m.PreSeq = append(m.PreSeq, rig.F("369", rapid.SampledFrom([]string{"abc", "1x"}).Draw(g.t, "badHeaderInt")))
		m.Note += " bad-header-field"
	case 6:
		// the header's repeating group (NoHops) with a non-numeric member inside its entry
		m.PreSeq = append(m.PreSeq, rig.F("627", "1"), rig.F("628", "HUB"), rig.F("630", rapid.SampledFrom([]string{"abc", "1x"}).Draw(g.t, "badHopRefInLogon")))
		m.Note += " bad-hop-ref"
	case 7:
		// ... or a well-formed one
		m.PreSeq = append(m.PreSeq, rig.F("627", "1"), rig.F("628", "HUB"), rig.F("630", "3"))
	case 4, 5:
		// header fields AHEAD of MsgSeqNum whose tag or value only looks like it
		m.PreSeq = append(m.PreSeq, rapid.SampledFrom([]rig.Tok{rig.F("5034", "77"), rig.F("115", "DESK/34=9"), rig.F("50", "GW34=9"), rig.F("134", "5")}).Draw(g.t, "seqLookalike"))
	}
	return m
}

// goodLogon is an acceptable Logon with the given interval (0 = draw one).
func (g *hgen) goodLogon(hb int) *rig.InMsg {
	if hb == 0 {
		hb = rapid.IntRange(g.cfg.HBMin, min(g.cfg.HBMax, g.cfg.HBMin+3600)).Draw(g.t, "hbGood")
	}
	if g.cfg.Role == "initiator" {
		hb = g.cfg.HBInt
	}
	if hb > g.maxHB {
		g.maxHB = hb
	}
	g.hb = hb
	user, pass := "alice", "secret"
	hbText := itoa(hb)
	if g.t != nil && rapid.IntRange(0, 7).Draw(g.t, "hbZeroPadded") == 0 {
		hbText = "0" + hbText // decimal with a leading zero: the same number
	}
	return &rig.InMsg{Type: rig.TLogon, Seq: g.seq(), Note: "good logon", Fields: []rig.Tok{
		rig.F(rig.TagEncryptMethod, g.cfg.Methods[0]), rig.F(rig.TagHeartBtInt, hbText),
		rig.F(rig.TagUsername, user), rig.F(rig.TagPassword, pass)}}
}

// LogonVerdict classifies a Logon against a configuration, from the message
// alone: "ok", "damaged", "field:<tags>", "refused".
func LogonVerdict(cfg *rig.Cfg, m *rig.InMsg) (verdict string, badTags []string) {
	if m.Damage != "" {
		return "damaged", nil
	}
	var method, hb, user, pass string
	var hasMethod, hasHB bool
	for _, f := range m.Fields {
		switch f.Tag {
		case rig.TagEncryptMethod:
			if !hasMethod {
				method, hasMethod = f.Val, true
			}
		case rig.TagHeartBtInt:
			if !hasHB {
				hb, hasHB = f.Val, true
			}
		case rig.TagUsername:
			user = f.Val
		case rig.TagPassword:
			pass = f.Val
		}
	}
	if _, err := strconv.Atoi(m.Seq); err != nil || m.NoSeq {
		return "unparsable", nil
	}
	for _, f := range m.PreSeq {
		if f.Tag == "369" || f.Tag == "630" {
			if _, err := strconv.Atoi(f.Val); err != nil {
				return "unparsable", nil
			}
		}
	}
	for i, f := range m.Fields {
		if f.Tag == "384" { // NoMsgTypes: the count must equal the number of entries (each opened by 372)
			n, err := strconv.Atoi(f.Val)
			entries := 0
			for _, e := range m.Fields[i+1:] {
				if e.Tag == "372" {
					entries++
				}
			}
			if err != nil || n != entries {
				return "unparsable", nil
			}
		}
	}
	n := 0
	if hasHB {
		var err error
		n, err = strconv.Atoi(hb)
		if err != nil {
			return "unparsable", nil
		}
	}
	okMethod := false
	for _, a := range cfg.Methods {
		if hasMethod && a == method {
			okMethod = true
		}
	}
	if !okMethod {
		badTags = append(badTags, rig.TagEncryptMethod)
	}
	if !hasHB || n < cfg.HBMin || n > cfg.HBMax {
		badTags = append(badTags, rig.TagHeartBtInt)
	}
	if len(badTags) > 0 {
		return "field", badTags
	}
	if !rig.Approves(cfg.Approve, user, pass) {
		return "refused", nil
	}
	if n >= 9223372037 {
		// inside limits that allow anything, approved, yet not a length of time a timer can hold
		// (its nanoseconds do not fit): refused with the interval named
		return "field", []string{rig.TagHeartBtInt}
	}
	return "ok", nil
}

func (g *hgen) testRequest(id string) *rig.InMsg {
	m := &rig.InMsg{Type: rig.TTestRequest, Seq: g.seq(), Fields: []rig.Tok{rig.F(rig.TagTestReqID, id)}}
	if g.t != nil && rapid.IntRange(0, 7).Draw(g.t, "steerChecksum") == 0 {
		// a valid message whose CheckSum lands on an edge of the three-digit field
		steerChecksum(m, rapid.SampledFrom([]string{"000", "000", "001", "009", "010", "099", "100", "255"}).Draw(g.t, "checksumEdge"))
	}
	if g.t != nil && rapid.IntRange(0, 9).Draw(g.t, "padBodyLength") == 0 {
		m.PadLen = rapid.IntRange(1, 4).Draw(g.t, "padLen") // 9=00066: the same number with leading zeros
	}
	return m
}

// steerChecksum extends the value of the message's last body field with up to
// two characters so that the (valid) CheckSum of the message is want. The search
// is deterministic; if no suffix fits the message is left as it was.
func steerChecksum(m *rig.InMsg, want string) {
	if len(m.Fields) == 0 {
		return
	}
	f := &m.Fields[len(m.Fields)-1]
	base := f.Val
	const alphabet = "0123456789ABCDEFGHIJKLMNOPQRSTUVWXYZabcdefghijklmnopqrstuvwxyz"
	for i := 0; i < len(alphabet); i++ {
		for j := 0; j < len(alphabet); j++ {
			f.Val = base + string(alphabet[i]) + string(alphabet[j])
			if cs, _ := ref.Lookup(m.Bytes(), "10"); cs == want {
				return
			}
		}
	}
	f.Val = base
}

func (g *hgen) heartbeat(id string) *rig.InMsg {
	m := &rig.InMsg{Type: rig.THeartbeat, Seq: g.seq()}
	if id != "" {
		m.Fields = []rig.Tok{rig.F(rig.TagTestReqID, id)}
	}
	return m
}

func (g *hgen) logout() *rig.InMsg {
	return &rig.InMsg{Type: rig.TLogout, Seq: g.seq()}
}

func (g *hgen) resend(b, e int) *rig.InMsg {
	return &rig.InMsg{Type: rig.TResendRequest, Seq: g.seq(), Fields: []rig.Tok{rig.F(rig.TagBeginSeqNo, itoa(b)), rig.F(rig.TagEndSeqNo, itoa(e))}}
}

func (g *hgen) app() *rig.InMsg {
	typ := rapid.SampledFrom([]string{"Y", "V", "D", "8", "ZZ", "W", "a", "a", "AA", "A0"}).Draw(g.t, "appType")
	m := &rig.InMsg{Type: typ, Seq: g.seq(), Fields: []rig.Tok{rig.F(rig.TagMDReqID, "r"+itoa(g.inSeq))}}
	if typ == "a" || typ == "AA" || typ == "A0" {
		// an application message whose type only resembles the Logon's (35=a is QuoteStatusRequest; types are case
		// sensitive and compared whole), carrying everything an acceptable Logon would: it is not a Logon
		hb := g.cfg.HBMin
		if g.cfg.Role == "initiator" {
			hb = g.cfg.HBInt
		}
		m.Fields = append(m.Fields, rig.F(rig.TagEncryptMethod, g.cfg.Methods[0]), rig.F(rig.TagHeartBtInt, itoa(hb)), rig.F(rig.TagUsername, "alice"), rig.F(rig.TagPassword, "secret"))
	}
	if rapid.IntRange(0, 3).Draw(g.t, "appDecoy") == 0 {
		// fields whose tag or value only LOOKS like a session-level field (MsgType 35, MsgSeqNum 34, CheckSum 10)
		m.Fields = append(m.Fields, rapid.SampledFrom([]rig.Tok{rig.F("435", "4"), rig.F("135", "4"), rig.F("1035", "A"), rig.F("134", "1"), rig.F("58", "x35=4"), rig.F("58", "34=1"), rig.F("110", "5"), rig.F("58", "ends with 35=4")}).Draw(g.t, "appDecoyField"))
	}
	return m
}

// resendRange draws (b,e) relative to the guessed number of messages sent.
func (g *hgen) resendRange() (int, int) {
	last := g.sent
	if last < 1 {
		last = 1
	}
	switch rapid.IntRange(0, 8).Draw(g.t, "rangeKind") {
	case 0: // inside
		b := rapid.IntRange(1, last).Draw(g.t, "b")
		return b, rapid.IntRange(b, last).Draw(g.t, "e")
	case 1: // b = e
		b := rapid.IntRange(1, last).Draw(g.t, "b")
		return b, b
	case 2: // through the end
		return rapid.IntRange(1, last).Draw(g.t, "b"), 0
	case 3: // partly beyond
		return rapid.IntRange(1, last).Draw(g.t, "b"), last + rapid.IntRange(1, 5).Draw(g.t, "over")
	case 4: // wholly beyond
		b := last + rapid.IntRange(1, 5).Draw(g.t, "b")
		return b, b + rapid.IntRange(0, 5).Draw(g.t, "span")
	case 5: // b > e
		e := rapid.IntRange(1, last).Draw(g.t, "e")
		return e + rapid.IntRange(1, 3).Draw(g.t, "gap"), e
	case 6: // b = 0
		return 0, rapid.IntRange(0, last).Draw(g.t, "e")
	case 7:
		return 1, last
	default:
		return 1, 0
	}
}

// genTestReqID draws a TestReqID: any bytes but SOH, incl. decoys.
func genTestReqID(t *rapid.T) (string, bool) {
	decoys := []string{rig.TagTestReqID, "10", "35", "34", "8", "9", "112", "45", "108"}
	b, decoy := gen.GenStringBytes(t, "testReqID", decoys)
	return string(b), decoy
}

func isPlain(s string) bool {
	for i := 0; i < len(s); i++ {
		c := s[i]
		if !(c >= '0' && c <= '9' || c >= 'a' && c <= 'z' || c >= 'A' && c <= 'Z') {
			return false
		}
	}
	return true
}

// damage applies one kind of damage to a message.
func damage(t *rapid.T, m *rig.InMsg) *rig.InMsg {
	m.Damage = rapid.SampledFrom([]string{"checksum", "bodylength", "checksum", "bodylength", "leading-field", "trailing-field", "checksum-spelling"}).Draw(t, "damage")
	m.DamageBy = rapid.IntRange(0, 300).Draw(t, "damageBy")
	return m
}

func showStep(s *rig.Step) string {
	switch s.Op {
	case "in":
		return "in " + ref.Show(s.In.Bytes())
	case "burst":
		out := "burst"
		for _, m := range s.Burst {
			out += " <" + ref.Show(m.Bytes()) + ">"
		}
		return out
	case "advance":
		return fmt.Sprintf("advance %dms", s.Dt/1e6)
	case "send":
		return "send " + s.ID
	}
	return s.Op
}

func showScript(sc *Script) []string {
	out := []string{fmt.Sprintf("cfg %+v", sc.Cfg)}
	for i := range sc.Steps {
		s := showStep(&sc.Steps[i])
		if len(s) > 300 {
			s = s[:300] + "..."
		}
		out = append(out, s)
	}
	return out
}

func showOut(r rig.StepRes) string {
	s := ""
	for _, o := range r.Out {
		s += " <" + o.String() + ">"
	}
	if s == "" {
		s = " (nothing)"
	}
	return s
}
