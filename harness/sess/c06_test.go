package sess

import (
	"fmt"
	"math"
	"strconv"
	"testing"

	"pgregory.net/rapid"

	"verif/harness/evid"
	"verif/harness/pbt"
	"verif/harness/ref"
	"verif/harness/rig"
)

// HistKnobs steer the general history generator.
type HistKnobs struct {
	Role             string
	NoGoodLogon      bool // C07: never an acceptable Logon
	EarlyLogon       int  // percent of histories that start with an acceptable Logon
	Local            bool // local sends / logouts interleaved
	LocalLogout      bool // local Logout() / Stop() calls interleaved, but no local sends (C07: a Logout may go to a peer that has not logged on)
	LongAdvance      bool // allow idle stretches of minutes (only sensible while not logged on)
	TailCounterFails bool // the history may end with: the counter store stops recording numbers, then further Logons
	MaxSteps         int
}

var allHB = []string{"below", "min", "inside", "max", "above", "text", "absent"}
var allMethod = []string{"allowed", "allowed", "disallowed", "absent", "padded"}
var allCreds = []string{"good", "good", "bad", "padded"}

func genHistory(t *rapid.T, k HistKnobs) *Script {
	cfg := genCfg(t, k.Role)
	if k.NoGoodLogon && cfg.Approve == "all" && rapid.Bool().Draw(t, "refuseAll") {
		cfg.Approve = "none"
	}
	hbKinds := allHB
	if cfg.Role == "acceptor" && rapid.IntRange(0, 9).Draw(t, "anyInterval") == 0 {
		// an acceptor whose limits allow any interval at all
		cfg.HBMax = math.MaxInt64
		hbKinds = []string{"min", "inside", "huge", "huge", "text", "absent", "below"}
	}
	if cfg.Role == "initiator" {
		// the initiator's own credentials: both, only a password (token-style), only a user name, none
		cfg.User = rapid.SampledFrom([]string{"alice", "alice", "", "bob"}).Draw(t, "ownUser")
		cfg.Pass = rapid.SampledFrom([]string{"secret", "secret", "", "t0ken"}).Draw(t, "ownPass")
	}
	g := &hgen{t: t, cfg: cfg, inSeq: 1}
	sc := &Script{Cfg: cfg}
	n := rapid.IntRange(1, k.MaxSteps).Draw(t, "nSteps")
	sinceIn := int64(0)
	add := func(s rig.Step) {
		sc.Steps = append(sc.Steps, s)
		if s.Op == "in" || s.Op == "burst" {
			sinceIn = 0
		}
	}
	if !k.NoGoodLogon && rapid.IntRange(0, 99).Draw(t, "early") < k.EarlyLogon {
		add(rig.Step{Op: "in", In: g.goodLogon(0)})
		g.logged, g.sent = true, 1
	}
	for i := 0; i < n; i++ {
		if g.logged && !k.LongAdvance && rapid.IntRange(0, 29).Draw(t, "probeThenLogon") == 0 {
			// silent until the session has probed the peer, whose next message is a further Logon
			hb := g.hb
			if cfg.Role == "initiator" {
				hb = cfg.HBInt
			}
			T := int64(tolT(hb))
			add(rig.Step{Op: "advance", Dt: T + T/10 + 1e6 - sinceIn})
			add(rig.Step{Op: "in", In: g.goodLogon(hb), Kind: "after-probe"})
			continue
		}
		switch kind := rapid.IntRange(0, 99).Draw(t, "stepKind"); {
		case kind < 30: // a Logon of some sort
			spec := LogonSpec{
				HB:     rapid.SampledFrom(hbKinds).Draw(t, "specHB"),
				Method: rapid.SampledFrom(allMethod).Draw(t, "specMethod"),
				Creds:  rapid.SampledFrom(allCreds).Draw(t, "specCreds"),
			}
			var m *rig.InMsg
			if !k.NoGoodLogon && rapid.IntRange(0, 9).Draw(t, "good") < 4 {
				m = g.goodLogon(0)
			} else {
				m = g.logon(spec)
			}
			if rapid.IntRange(0, 9).Draw(t, "damaged") == 0 {
				m = damage(t, m)
			} else if rapid.IntRange(0, 19).Draw(t, "seqText") == 0 {
				m.Seq = rapid.SampledFrom([]string{"abc", "1x", "0x10", "", "-", "99999999999999999999"}).Draw(t, "seqTextVal") // unparsable MsgSeqNum
			}
			if k.NoGoodLogon {
				if v, _ := LogonVerdict(&cfg, m); v == "ok" || cfg.Role == "initiator" {
					// make it unacceptable by construction; an initiator accepts
					// any parsable Logon, so for it every Logon is damaged
					m = damage(t, m)
				}
			}
			if v, _ := LogonVerdict(&cfg, m); v == "ok" && !g.logged {
				g.logged = true
				g.sent++
			}
			add(rig.Step{Op: "in", In: m})
		case kind < 38:
			add(rig.Step{Op: "in", In: g.logout()})
			g.logged = false
		case kind < 46:
			if rapid.IntRange(0, 5).Draw(t, "hbDisguised") == 0 {
				// a Heartbeat that carries a second MsgType field and the fields of a Logon behind it: still a Heartbeat
				m := g.heartbeat("")
				m.Fields = append(m.Fields, rig.F(rig.TagMsgType, rig.TLogon), rig.F(rig.TagEncryptMethod, cfg.Methods[0]), rig.F(rig.TagHeartBtInt, itoa(cfg.HBMin)),
					rig.F(rig.TagUsername, "alice"), rig.F(rig.TagPassword, "secret"))
				add(rig.Step{Op: "in", In: m})
				break
			}
			hbID := ""
			if rapid.IntRange(0, 2).Draw(t, "hbWithID") == 0 {
				hbID = rapid.SampledFrom([]string{"1", "x", "TEST"}).Draw(t, "hbID") // a Heartbeat that claims to answer a TestRequest
			}
			add(rig.Step{Op: "in", In: g.heartbeat(hbID)})
		case kind < 56:
			id, _ := genTestReqID(t)
			add(rig.Step{Op: "in", In: g.testRequest(id)})
		case kind < 68:
			b, e := g.resendRange()
			add(rig.Step{Op: "in", In: g.resend(b, e)})
		case kind < 76:
			add(rig.Step{Op: "in", In: g.app()})
		case kind < 82: // damaged admin message
			var m *rig.InMsg
			switch rapid.IntRange(0, 3).Draw(t, "dmgType") {
			case 0:
				m = g.heartbeat("")
			case 1:
				m = g.testRequest("t")
			case 2:
				m = g.resend(1, 1)
			default:
				m = g.logout()
			}
			add(rig.Step{Op: "in", In: damage(t, m)})
		case kind < 88 && k.Local:
			add(rig.Step{Op: "send", ID: fmt.Sprintf("app%d", i)})
		case kind < 91 && k.Local:
			add(rig.Step{Op: "logout"})
		case kind < 91 && k.LocalLogout:
			add(rig.Step{Op: rapid.SampledFrom([]string{"logout", "logout", "stop"}).Draw(t, "localEnd")})
		default:
			var dt int64
			if k.LongAdvance {
				dt = rapid.Int64Range(1, 600e9).Draw(t, "dtLong")
			} else {
				// stay below the smallest interval any logon of this history can
				// have negotiated, so that neither timer ever acts
				room := int64(cfg.HBMin)*1e9 - sinceIn - 1e6
				if cfg.Role == "initiator" {
					room = int64(cfg.HBInt)*1e9 - sinceIn - 1e6
				}
				if room <= 0 {
					continue
				}
				dt = rapid.Int64Range(1, room).Draw(t, "dt")
			}
			sinceIn += dt
			add(rig.Step{Op: "advance", Dt: dt})
		}
	}
	if k.TailCounterFails && g.logged && rapid.IntRange(0, 5).Draw(t, "tailCounterFails") == 0 {
		// the counter store goes away (SetSeqNum fails from now on): a further Logon on the
		// logged-on session is refused with its Reject all the same
		add(rig.Step{Op: "counter-fails"})
		for j := rapid.IntRange(1, 2).Draw(t, "tailLogons"); j > 0; j-- {
			add(rig.Step{Op: "in", In: g.goodLogon(g.hb)})
		}
	}
	sc.MaxHB = g.maxHB
	if cfg.HBMax > sc.MaxHB {
		sc.MaxHB = cfg.HBMax
	}
	return sc
}

// freshOnly drops retransmissions (outputs whose sequence number is not
// above every number seen before).
type freshFilter struct{ max int }

func (f *freshFilter) apply(r rig.StepRes) (fresh, resent []rig.Emitted) {
	for _, o := range r.Out {
		n, err := strconv.Atoi(o.Seq)
		if err == nil && n <= f.max {
			resent = append(resent, o)
			continue
		}
		if err == nil {
			f.max = n
		}
		fresh = append(fresh, o)
	}
	return
}

func count(evs []string, name string) int {
	n := 0
	for _, e := range evs {
		if e == name {
			n++
		}
	}
	return n
}

func framedIn(m *rig.InMsg) bool { return m.Damage == "" }

func seqNumeric(m *rig.InMsg) bool {
	if m.NoSeq {
		return false
	}
	_, err := strconv.Atoi(m.Seq)
	return err == nil
}

// expectReject checks "exactly one Reject referencing the offender".
func expectReject(i int, m *rig.InMsg, fresh []rig.Emitted, tags []string, res rig.StepRes) []pbt.Violation {
	what := fmt.Sprintf("step %d (%s %s)", i, m.Type, m.Note)
	if len(fresh) != 1 || fresh[0].Type != rig.TReject {
		return []pbt.Violation{pbt.V("reject-count:"+m.Type, "%s must be answered by exactly one Reject, got:%s", what, showOut(res))}
	}
	rj := fresh[0]
	if seqNumeric(m) {
		if got, _ := rj.Get(rig.TagRefSeqNum); got != strconv.Itoa(atoi(m.Seq)) {
			return []pbt.Violation{pbt.V("reject-refseq:"+m.Type, "%s: Reject has RefSeqNum %q, the offender's MsgSeqNum is %s: %s", what, got, m.Seq, rj.String())}
		}
	} else {
		if got, _ := rj.Get(rig.TagRefTagID); got != rig.TagMsgSeqNum {
			return []pbt.Violation{pbt.V("reject-reftag:"+m.Type, "%s: the offender has no usable MsgSeqNum, Reject must name tag 34, has RefTagID %q: %s", what, got, rj.String())}
		}
	}
	if len(tags) > 0 {
		got, _ := rj.Get(rig.TagRefTagID)
		ok := false
		for _, tg := range tags {
			if got == tg {
				ok = true
			}
		}
		if !ok {
			return []pbt.Violation{pbt.V("reject-field:"+m.Type, "%s: Reject names field %q, the offending field(s) are %v: %s", what, got, tags, rj.String())}
		}
	}
	return nil
}

func atoi(s string) int { n, _ := strconv.Atoi(s); return n }

// ---------- C06 ----------

func genC06(t *rapid.T) *Script {
	return genHistory(t, HistKnobs{EarlyLogon: 35, Local: true, MaxSteps: 25, TailCounterFails: true})
}

func checkC06(sc *Script, rec *evid.Rec) (vs []pbt.Violation) {
	tr := rig.RunDirect(outerT, sc.Cfg, sc.Steps, nil, sc.MaxHB)
	if tr.Trouble != "" {
		return []pbt.Violation{pbt.V("harness", "%s", tr.Trouble)}
	}
	if tr.RunPanic != "" {
		return []pbt.Violation{pbt.V("inbound-panic", "handler.Run panicked: %s", tr.RunPanic)}
	}
	cfg := &sc.Cfg
	ff := &freshFilter{}
	state := "waiting" // model: waiting | logged | loggingout
	abstract := cfg.Role
	sawRefused, sawOK, sawWhileLogged := false, false, false
	counterFailing := false
	setupFresh, _ := ff.apply(tr.Setup)
	if cfg.Role == "initiator" {
		if len(setupFresh) == 0 || setupFresh[0].Type != rig.TLogon {
			vs = append(vs, pbt.V("initiator-first-message", "an initiating session must send a Logon first, sent:%s", showOut(tr.Setup)))
		} else {
			lg := setupFresh[0]
			for _, w := range [][2]string{{rig.TagHeartBtInt, strconv.Itoa(cfg.HBInt)}, {rig.TagEncryptMethod, cfg.Methods[0]}, {rig.TagUsername, cfg.User}, {rig.TagPassword, cfg.Pass}} {
				if got, _ := lg.Get(w[0]); got != w[1] {
					vs = append(vs, pbt.V("initiator-logon-field:"+w[0], "the initiator's Logon carries %s=%q, configured %q: %s", w[0], got, w[1], lg.String()))
				}
			}
		}
		if tr.Setup.Logged {
			vs = append(vs, pbt.V("logged-without-logon", "initiator reports logged on right after sending its Logon"))
		}
	} else if len(setupFresh) != 0 {
		vs = append(vs, pbt.V("acceptor-speaks-first", "an accepting session sent something before receiving anything:%s", showOut(tr.Setup)))
	}
	for i := range sc.Steps {
		st := &sc.Steps[i]
		res := tr.Steps[i]
		fresh, _ := ff.apply(res)
		before := state
		if res.RunEnded || !res.Delivered {
			break // the handler stopped (outside this property)
		}
		if st.Op == "counter-fails" {
			counterFailing = true
			rec.Hist("counter-store-fails-before-a-further-logon")
		}
		if counterFailing && state != "logged" {
			break // only "a further Logon on a logged-on session" is judged once the counter store has gone away
		}
		switch st.Op {
		case "logout":
			state = "loggingout"
		case "in":
			m := st.In
			switch m.Type {
			case rig.TLogon:
				verdict, tags := LogonVerdict(cfg, m)
				if cfg.Role == "acceptor" && verdict != "damaged" && verdict != "unparsable" {
					// whatever the answer is, it carries the identifiers mirrored from this Logon
					for _, o := range fresh {
						snd, _ := o.Get(rig.TagSenderCompID)
						tgt, _ := o.Get(rig.TagTargetCompID)
						if snd != "LIB" || tgt != "PEER" {
							vs = append(vs, pbt.V("answer-identifiers:"+o.Type, "step %d: the %s answering a Logon from PEER to LIB carries SenderCompID %q / TargetCompID %q: %s", i, o.Type, snd, tgt, o.String()))
							break
						}
					}
				}
				abstract += "|L:" + verdict + "@" + before
				switch before {
				case "waiting":
					if cfg.Role == "initiator" {
						if verdict == "damaged" || verdict == "unparsable" {
							sawRefused = true
							vs = append(vs, expectReject(i, m, fresh, nil, res)...)
							if res.Logged {
								vs = append(vs, pbt.V("logged-after-bad-logon", "step %d: initiator logged on by a damaged Logon", i))
							}
						} else {
							sawOK = true
							if !res.Logged {
								vs = append(vs, pbt.V("not-logged-after-logon", "step %d: a well-formed Logon came back but the initiator does not report logged on", i))
							}
							state = "logged"
						}
						break
					}
					switch verdict {
					case "ok":
						sawOK = true
						state = "logged"
						if len(fresh) == 0 || fresh[0].Type != rig.TLogon {
							vs = append(vs, pbt.V("no-logon-answer", "step %d: acceptable Logon not answered by a Logon first:%s", i, showOut(res)))
							break
						}
						wantHB, wantM := "", ""
						for _, f := range m.Fields {
							if f.Tag == rig.TagHeartBtInt {
								wantHB = f.Val
								if n, err := strconv.Atoi(f.Val); err == nil {
									wantHB = strconv.Itoa(n) // the answer carries the number, however the peer spelled it (leading zeros, plus sign)
								}
							}
							if f.Tag == rig.TagEncryptMethod {
								wantM = f.Val
							}
						}
						if got, _ := fresh[0].Get(rig.TagHeartBtInt); got != wantHB {
							vs = append(vs, pbt.V("answer-heartbtint", "step %d: Logon answer carries HeartBtInt %q, received %q", i, got, wantHB))
						}
						if got, _ := fresh[0].Get(rig.TagEncryptMethod); got != wantM {
							vs = append(vs, pbt.V("answer-encryptmethod", "step %d: Logon answer carries EncryptMethod %q, received %q", i, got, wantM))
						}
						for _, o := range fresh[1:] {
							if o.Type != rig.TResendRequest {
								vs = append(vs, pbt.V("extra-on-logon", "step %d: unexpected %s besides the Logon answer:%s", i, o.Type, showOut(res)))
							}
						}
						if !res.Logged {
							vs = append(vs, pbt.V("not-logged-after-logon", "step %d: acceptable Logon answered but IsLogged is false", i))
						}
						if c := count(res.Events, "session:logon"); c != 1 {
							vs = append(vs, pbt.V("logon-event-count", "step %d: EventLogon fired %d times", i, c))
						}
					default:
						sawRefused = true
						var want []string
						if verdict == "field" {
							want = tags
						}
						vs = append(vs, expectReject(i, m, fresh, want, res)...)
						if res.Logged {
							vs = append(vs, pbt.V("logged-after-bad-logon", "step %d: IsLogged is true after a %s Logon", i, verdict))
						}
						if c := count(res.Events, "session:logon"); c != 0 {
							vs = append(vs, pbt.V("logon-event-on-bad-logon", "step %d: EventLogon fired for a %s Logon", i, verdict))
						}
					}
				case "logged":
					sawWhileLogged = true
					vs = append(vs, expectReject(i, m, fresh, nil, res)...)
					if !res.Logged {
						vs = append(vs, pbt.V("disturbed-by-second-logon", "step %d: a Logon while logged on left the session not logged on", i))
					}
				}
			case rig.TLogout:
				if framedIn(m) && (before == "logged" || before == "loggingout") {
					state = "waiting"
				}
				abstract += "|O@" + before
			case rig.TTestRequest:
				if before == "logged" && framedIn(m) && i > 0 && sc.Steps[i-1].Op == "in" && sc.Steps[i-1].In.Type == rig.TLogon {
					// undisturbed: still answers
					ok := false
					for _, o := range fresh {
						if o.Type == rig.THeartbeat {
							ok = true
						}
					}
					if !ok {
						vs = append(vs, pbt.V("disturbed-no-testrequest-answer", "step %d: TestRequest after a Logon exchange not answered:%s", i, showOut(res)))
					}
				}
			}
		}
		// safety: logged on only through an acceptable Logon
		// (while a locally requested logout is still unanswered the Logon exchange is
		// still the one in force: the property does not require IsLogged to be false then)
		if res.Logged && state != "logged" && state != "loggingout" {
			vs = append(vs, pbt.V("logged-without-logon", "step %d (%s): IsLogged is true although no acceptable Logon is in force (model state %s)", i, showStep(st), state))
		}
		if len(vs) > 0 {
			break
		}
	}
	nontrivial := (sawRefused && sawOK) || sawWhileLogged
	rec.Case(evid.FPs(abstract), nontrivial)
	rec.Hist("role:" + cfg.Role)
	if sawWhileLogged {
		rec.Hist("logon-while-logged-on")
	}
	if sawRefused {
		rec.Hist("refused-or-damaged-logon")
	}
	if sawOK {
		rec.Hist("acceptable-logon")
	}
	if rec.WantSample() && nontrivial {
		rec.Sample(showScript(sc))
	}
	return vs
}

func TestC06(t *testing.T) {
	outerT = t
	rec := evid.New("C06")
	pbt.Run(t, "C06", rec, genC06, checkC06)
}

var _ = ref.Show
