package sess

import (
	"fmt"
	"strings"
	"testing"
	"time"

	simplefixgo "github.com/b2broker/simplefix-go"
	"github.com/b2broker/simplefix-go/session"
	"github.com/b2broker/simplefix-go/utils"

	"pgregory.net/rapid"

	"verif/harness/evid"
	"verif/harness/pbt"
	"verif/harness/ref"
	"verif/harness/rig"
)

// ---------- C15: Logout acknowledged once; Stop ends on the peer's answer or the deadline ----------

type C15Case struct {
	Script
	Ending        string `json:"ending"`                   // peer-logout | local-logout | stop
	AnswerKind    string `json:"answer_kind"`              // never | immediately | half | just-before | after
	AppHandler    string `json:"app_handler"`              // the application's own EventLogout handler: none | true | false (its return value)
	EndStep       int    `json:"end_step"`                 // index of the peer Logout / local Logout / Stop step
	AnswerStep    int    `json:"answer_step"`              // index of the peer's answering Logout (-1: none)
	DamagedFirst  bool   `json:"damaged_first,omitempty"`  // peer-logout ending: a damaged Logout precedes the intact one
	SecondLogon   int    `json:"second_logon,omitempty"`   // peer-logout ending on an acceptor: step of a second Logon on the same connection (0: none) ...
	SecondLogout  int    `json:"second_logout,omitempty"`  // ... and of the peer\'s second Logout
	RefuseResends bool   `json:"refuse_resends,omitempty"` // an application outgoing handler refuses every message it is offered a second time (a retransmission); a ResendRequest 1..0 precedes the ending
	RefuseLogout  bool   `json:"refuse_logout,omitempty"`  // stop ending: an application outgoing handler refuses the Logout, so it never reaches the peer; the deadline still ends the session
	CounterFails  bool   `json:"counter_fails,omitempty"`  // peer-logout ending: the counter store fails from just before the peer's Logout on; the Logout is answered all the same
	Probed        bool   `json:"probed"`                   // local endings: the peer has been silent long enough for the session to have sent its TestRequest; the local Logout()/Stop() comes while that is unanswered
}

func genC15(t *rapid.T) *C15Case {
	cfg := genCfg(t, "")
	cfg.Approve = "all"
	// intervals well above the longest close timeout, so that no timer acts
	cfg.HBMin = rapid.IntRange(40, 60).Draw(t, "hbMin15")
	cfg.HBMax = cfg.HBMin + rapid.IntRange(0, 30).Draw(t, "hbSpan15")
	cfg.HBInt = rapid.IntRange(cfg.HBMin, cfg.HBMax).Draw(t, "hbInt15")
	g := &hgen{t: t, cfg: cfg, inSeq: 1}
	c := &C15Case{AnswerStep: -1}
	c.Cfg = cfg
	c.Ending = rapid.SampledFrom([]string{"peer-logout", "local-logout", "stop", "stop", "stop"}).Draw(t, "ending")
	c.AppHandler = rapid.SampledFrom([]string{"none", "none", "true", "false"}).Draw(t, "appHandler")
	add := func(s rig.Step) int { c.Steps = append(c.Steps, s); return len(c.Steps) - 1 }
	filler := func(n int, lbl string) {
		for i := 0; i < n; i++ {
			switch rapid.IntRange(0, 3).Draw(t, lbl) {
			case 0:
				add(rig.Step{Op: "in", In: g.testRequest(fmt.Sprintf("f%d", i))})
			case 1:
				add(rig.Step{Op: "in", In: g.heartbeat("")})
			case 2:
				add(rig.Step{Op: "send", ID: fmt.Sprintf("app%d", i)})
			default:
				add(rig.Step{Op: "in", In: g.app()})
			}
		}
	}
	add(rig.Step{Op: "in", In: g.goodLogon(0)})
	filler(rapid.IntRange(0, 4).Draw(t, "prefix"), "pre")
	if rapid.IntRange(0, 4).Draw(t, "refusedResend") == 0 {
		// the peer asks for everything again and the application's outgoing handler refuses to let a
		// message out a second time: the resend ends half-way; the logout that follows is unaffected
		c.RefuseResends = true
		add(rig.Step{Op: "in", In: g.resend(1, 0)})
	}
	timeout := time.Duration(cfg.CloseTimeoutMs) * time.Millisecond
	probeFirst := func() {
		if rapid.IntRange(0, 3).Draw(t, "probedFirst") == 0 {
			// the peer is silent until the session has sent its TestRequest; with N >= 40 s
			// the second period is longer than any close timeout, so the probe's own
			// deadline cannot interfere with the ending
			T := int64(tolT(g.hb))
			add(rig.Step{Op: "advance", Dt: T + T/10 + 1e6})
			c.Probed = true
		}
	}
	switch c.Ending {
	case "peer-logout":
		if rapid.IntRange(0, 2).Draw(t, "probeFirst") == 0 {
			// silent until the session has probed the peer; the Logout is the peer's next message
			T := int64(tolT(g.hb))
			add(rig.Step{Op: "advance", Dt: T + T/10 + 1e6})
			c.AnswerKind = "after-probe"
		}
		if c.AnswerKind == "" && rapid.IntRange(0, 3).Draw(t, "damagedFirst") == 0 {
			// the peer's first Logout arrives damaged (rejected, nothing else happens); it repeats it intact
			add(rig.Step{Op: "in", In: damage(t, g.logout())})
			c.DamagedFirst = true
		}
		if c.AnswerKind == "" && rapid.IntRange(0, 3).Draw(t, "counterFails") == 0 {
			c.CounterFails = true
			add(rig.Step{Op: "counter-fails"})
		}
		c.EndStep = add(rig.Step{Op: "in", In: g.logout()})
		if cfg.Role == "acceptor" && !c.CounterFails && rapid.IntRange(0, 2).Draw(t, "secondRound") == 0 {
			// the same connection is used for a second round: the peer logs on again and out again
			c.SecondLogon = add(rig.Step{Op: "in", In: g.goodLogon(g.hb)})
			c.SecondLogout = add(rig.Step{Op: "in", In: g.logout()})
		}
	case "local-logout":
		probeFirst()
		c.EndStep = add(rig.Step{Op: "logout"})
		if rapid.Bool().Draw(t, "between") {
			if rapid.Bool().Draw(t, "betweenResend") {
				// the peer asks for a resend of everything instead of answering: the Logout must not go out again
				add(rig.Step{Op: "in", In: g.resend(1, 0)})
			} else {
				add(rig.Step{Op: "in", In: g.heartbeat("")})
			}
		}
		if rapid.Bool().Draw(t, "wait") {
			add(rig.Step{Op: "advance", Dt: rapid.Int64Range(1, 5e9).Draw(t, "waitDt")})
		}
		c.AnswerKind = "answered"
		if rapid.IntRange(0, 1).Draw(t, "reactiveLogout") == 0 {
			// the peer answers the instant it sees the Logout on the wire
			c.Steps = c.Steps[:c.EndStep+1]
			c.AnswerKind = "reactive"
			c.AnswerStep = c.EndStep
			g.inSeq += 1
			break
		}
		c.AnswerStep = add(rig.Step{Op: "in", In: g.logout()})
	case "stop":
		probeFirst()
		c.EndStep = add(rig.Step{Op: "stop"})
		kinds := []string{"never", "immediately", "reactive", "reactive", "half", "just-before", "after"}
		if timeout <= time.Millisecond {
			kinds = []string{"never", "after"} // no room strictly before the deadline
		} else if timeout >= time.Second {
			kinds = append(kinds, "hangup")
		}
		c.AnswerKind = rapid.SampledFrom(kinds).Draw(t, "answerKind")
		if c.AnswerKind == "never" && rapid.Bool().Draw(t, "refuseLogout") {
			c.RefuseLogout = true
		}
		var off time.Duration
		switch c.AnswerKind {
		case "immediately":
			off = 0
		case "half":
			off = timeout / 2
		case "just-before":
			off = timeout - time.Millisecond
		case "after":
			off = timeout + time.Duration(rapid.Int64Range(1, 2e9).Draw(t, "late"))
		}
		if c.AnswerKind == "hangup" {
			// the peer sends something, answers the Logout and hangs up at once; the application's
			// handler is still busy with the first of the two (1 ms) when the connection's end is
			// reported: the answer, already accepted by the handler, must still be processed
			c.Cfg.Buf = 10
			c.AnswerStep = add(rig.Step{Op: "burst", Burst: []*rig.InMsg{g.heartbeat(""), g.logout()}})
			add(rig.Step{Op: "connclosed"})
		} else if c.AnswerKind == "reactive" {
			c.AnswerStep = c.EndStep
			g.inSeq += 1
		} else if c.AnswerKind != "never" {
			if off > 0 {
				if rapid.Bool().Draw(t, "traffic") && off > 2 {
					add(rig.Step{Op: "advance", Dt: int64(off / 2)})
					if rapid.Bool().Draw(t, "trafficResend") {
						add(rig.Step{Op: "in", In: g.resend(1, 0)}) // nor may it bring the Logout out again
					} else {
						add(rig.Step{Op: "in", In: g.heartbeat("")}) // other traffic must not end the wait
					}
					add(rig.Step{Op: "advance", Dt: int64(off - off/2)})
				} else {
					add(rig.Step{Op: "advance", Dt: int64(off)})
				}
			}
			c.AnswerStep = add(rig.Step{Op: "in", In: g.logout()})
		}
		add(rig.Step{Op: "advance", Dt: int64(timeout) + 1e9})
	}
	c.MaxHB = g.maxHB
	damaged := false
	for _, st := range c.Steps {
		if st.In != nil && st.In.Damage != "" {
			damaged = true
		}
	}
	if !damaged && rapid.IntRange(0, 4).Draw(t, "tolerant") == 0 {
		// the application configured its own unmarshaller (SetUnmarshaller), one that does not insist on the
		// CheckSum value, and the peer writes 000 there: for this session those are valid messages
		c.Cfg.Tolerant = true
		for i := range c.Steps {
			if c.Steps[i].In != nil {
				c.Steps[i].In.Sloppy = true
			}
		}
	}
	return c
}

func logouts(out []rig.Emitted) int {
	n := 0
	for _, o := range out {
		if o.Type == rig.TLogout {
			n++
		}
	}
	return n
}

func checkC15(c *C15Case, rec *evid.Rec) (vs []pbt.Violation) {
	hooks := &rig.Hooks{}
	if c.AppHandler != "none" {
		ret := c.AppHandler == "true"
		hooks.AfterRun = func(h *simplefixgo.DefaultHandler, s *session.Session, log *rig.EventLog) {
			s.OnChangeState(utils.EventLogout, func() bool { return ret })
		}
	}
	if c.RefuseLogout {
		hooks.BeforeRun = func(h *simplefixgo.DefaultHandler, log *rig.EventLog) {
			h.HandleOutgoing(rig.TLogout, func(simplefixgo.SendingMessage) bool { return false })
		}
	}
	if c.RefuseResends {
		prev := hooks.BeforeRun
		hooks.BeforeRun = func(h *simplefixgo.DefaultHandler, log *rig.EventLog) {
			if prev != nil {
				prev(h, log)
			}
			seen := map[int]bool{}
			h.HandleOutgoing(simplefixgo.AllMsgTypes, func(msg simplefixgo.SendingMessage) bool {
				n := msg.HeaderBuilder().MsgSeqNum()
				if seen[n] {
					return false
				}
				seen[n] = true
				return true
			})
		}
	}
	if c.AnswerKind == "hangup" {
		hooks.BeforeRun = func(h *simplefixgo.DefaultHandler, log *rig.EventLog) {
			h.HandleIncoming(rig.THeartbeat, func([]byte) bool { time.Sleep(time.Millisecond); return true })
		}
	}
	if c.AnswerKind == "reactive" {
		answered := false
		hooks.OnWire = func(o rig.Out) []*rig.InMsg {
			if o.Type == rig.TLogout && !answered {
				answered = true
				return []*rig.InMsg{{Type: rig.TLogout, Seq: "9999"}}
			}
			return nil
		}
	}
	tr := rig.RunDirect(outerT, c.Cfg, c.Steps, hooks, c.MaxHB)
	if tr.Trouble != "" {
		return []pbt.Violation{pbt.V("harness", "%s", tr.Trouble)}
	}
	if tr.RunPanic != "" {
		return []pbt.Violation{pbt.V("inbound-panic", "handler.Run panicked: %s", tr.RunPanic)}
	}
	timeout := time.Duration(c.Cfg.CloseTimeoutMs) * time.Millisecond
	end := tr.Steps[c.EndStep]
	if !tr.Steps[c.EndStep-1].Logged && c.EndStep > 0 && c.AnswerKind != "after-probe" && !c.Probed {
		// the prefix must leave the session logged on
		if c.DamagedFirst {
			return []pbt.Violation{pbt.V("damaged-logout-ended-the-session", "a Logout that fails validation (and was rejected) ended the session: IsLogged is false before the peer's intact Logout arrived; the damaged message produced:%s", showOut(tr.Steps[c.EndStep-1]))}
		}
		return []pbt.Violation{pbt.V("harness:not-logged", "prefix did not leave the session logged on")}
	}
	switch c.Ending {
	case "peer-logout":
		if n := logouts(end.Out); n != 1 || (len(end.Out) != 1 && c.AnswerKind != "after-probe") {
			vs = append(vs, pbt.V("peer-logout-reply-count", "a peer Logout must be answered by exactly one Logout, emitted:%s", showOut(end)))
		}
		if end.Logged {
			vs = append(vs, pbt.V("still-logged-after-logout", "IsLogged is still true after the peer's Logout was acknowledged"))
		}
		if c.SecondLogon > 0 && len(vs) == 0 {
			rec.Hist("second-round-on-the-connection")
			lg, lo := tr.Steps[c.SecondLogon], tr.Steps[c.SecondLogout]
			if !lg.Logged {
				vs = append(vs, pbt.V("second-round:logon-not-accepted", "after the logout exchange a further acceptable Logon on the same connection does not log the session on; it produced:%s", showOut(lg)))
			} else if n := logouts(lo.Out); n != 1 || lo.Logged {
				vs = append(vs, pbt.V("second-round:logout-reply-count", "second round on the connection: the peer's Logout must be answered by exactly one Logout and end the logon (IsLogged %v), emitted:%s", lo.Logged, showOut(lo)))
			}
		}
	case "local-logout":
		if n := logouts(end.Out); n != 1 {
			vs = append(vs, pbt.V("local-logout-not-sent", "a local Logout() must send exactly one Logout, emitted:%s", showOut(end)))
		}
		ans := tr.Steps[c.AnswerStep]
		if n := logouts(ans.Out); (c.AnswerStep != c.EndStep && n != 0) || (c.AnswerStep == c.EndStep && n != 1) {
			vs = append(vs, pbt.V("second-logout", "the peer's answering Logout triggered another Logout:%s", showOut(ans)))
		}
		if n := count(ans.Events, "session:logout"); n != 1 {
			vs = append(vs, pbt.V("logout-event-count", "the logout event fired %d times when the peer's answer arrived", n))
		}
		if ans.Logged {
			vs = append(vs, pbt.V("still-logged-after-logout", "IsLogged is true after the logout exchange"))
		}
	case "stop":
		if n := logouts(end.Out); n != 1 && !c.RefuseLogout {
			vs = append(vs, pbt.V("stop-logout-not-sent", "Stop() must send exactly one Logout, emitted:%s", showOut(end)))
		}
		deadline := end.At + timeout
		want := deadline
		answered := false
		if c.AnswerStep >= 0 {
			at := tr.Steps[c.AnswerStep].At
			if at < deadline {
				want, answered = at, true
			}
			if n := logouts(tr.Steps[c.AnswerStep].Out); c.AnswerStep != c.EndStep && n != 0 && at < deadline {
				vs = append(vs, pbt.V("second-logout", "the peer's answering Logout triggered another Logout:%s", showOut(tr.Steps[c.AnswerStep])))
			}
		}
		got := tr.CtxDoneAt
		switch {
		case got < 0:
			vs = append(vs, pbt.V("context-never-cancelled", "Stop() at %v with close timeout %v: the session context was never cancelled (answer: %s)", end.At, timeout, c.AnswerKind))
		case got < want:
			vs = append(vs, pbt.V("context-cancelled-early", "Stop() at %v, close timeout %v, answer %s: context cancelled at %v, before %v", end.At, timeout, c.AnswerKind, got, want))
		case got > want && answered && c.AnswerKind == "hangup" && got <= want+5*time.Millisecond:
			// the answer waited behind the busy handler for its millisecond
		case got > want && answered:
			vs = append(vs, pbt.V("answer-did-not-cancel", "Stop() at %v, close timeout %v: the peer's Logout arrived at %v but the context was cancelled only at %v", end.At, timeout, want, got))
		case got > want:
			vs = append(vs, pbt.V("deadline-missed", "Stop() at %v, close timeout %v, no answer in time: context cancelled at %v instead of %v", end.At, timeout, got, want))
		}
	}
	// whatever the peer sends between the local Logout and its answer, the Logout goes out once
	if c.Ending != "peer-logout" {
		last := len(c.Steps)
		if c.AnswerStep > c.EndStep {
			last = c.AnswerStep
		}
		for i := c.EndStep + 1; i < last; i++ {
			if n := logouts(tr.Steps[i].Out); n > 0 {
				vs = append(vs, pbt.V("logout-sent-again", "step %d (%s) after the local %s brought %d more Logout message(s) onto the wire:%s", i, showStep(&c.Steps[i]), c.Ending, n, showOut(tr.Steps[i])))
				break
			}
			if c.Steps[i].Op == "in" && c.Steps[i].In.Type == rig.TResendRequest {
				rec.Hist("resend-request-while-logout-pending")
			}
		}
	}
	nontrivial := c.Ending != "stop" || (c.AnswerStep >= 0 && tr.Steps[c.AnswerStep].At < end.At+timeout)
	rec.Case(evid.FPs(fmt.Sprintf("%s|%s|%s|%d|%d", c.Cfg.Role, c.Ending, c.AnswerKind, c.Cfg.CloseTimeoutMs, len(c.Steps))), nontrivial)
	rec.Hist("ending:" + c.Ending + ":" + c.AnswerKind)
	rec.Hist("app-logout-handler:" + c.AppHandler)
	rec.Hist(fmt.Sprintf("close-timeout-ms=%d", c.Cfg.CloseTimeoutMs))
	rec.Hist("role:" + c.Cfg.Role)
	if c.Probed {
		rec.Hist("local-ending-while-own-testrequest-unanswered:" + c.Ending)
	}
	if c.RefuseLogout {
		rec.Hist("stop-whose-logout-is-refused")
	}
	if c.DamagedFirst {
		rec.Hist("damaged-logout-before-the-intact-one")
	}
	if c.Cfg.Tolerant {
		rec.Hist("custom-unmarshaller-and-a-peer-that-writes-no-checksums")
	}
	if c.RefuseResends {
		rec.Hist("refused-retransmission-before-the-ending")
	}
	if c.CounterFails {
		rec.Hist("peer-logout-while-counter-store-fails")
	}
	if rec.WantSample() && nontrivial {
		rec.Sample(map[string]any{"ending": c.Ending, "answer": c.AnswerKind, "history": showScript(&c.Script)})
	}
	return vs
}

func TestC15(t *testing.T) {
	outerT = t
	rec := evid.New("C15")
	pbt.Run(t, "C15", rec, genC15, checkC15)
}

// ---- C15, the application logs out from inside its own logon callback ----
//
// An application that only wants to check credentials and leave calls
// Session.Logout() from its EventLogon callback (events are dispatched
// synchronously on the inbound goroutine). The Logout goes out once, the peer's
// answer ends the exchange, nothing blocks.

type C15CallbackCase struct {
	Script
	AnswerStep int `json:"answer_step"`
}

func genC15Callback(t *rapid.T) *C15CallbackCase {
	cfg := genCfg(t, "")
	cfg.Approve = "all"
	cfg.HBMin, cfg.HBMax = 40, 60
	cfg.HBInt = rapid.IntRange(40, 60).Draw(t, "hb15cb")
	g := &hgen{t: t, cfg: cfg, inSeq: 1}
	c := &C15CallbackCase{}
	c.Cfg = cfg
	c.Steps = append(c.Steps, rig.Step{Op: "in", In: g.goodLogon(0)})
	for i := rapid.IntRange(0, 2).Draw(t, "between"); i > 0; i-- {
		c.Steps = append(c.Steps, rig.Step{Op: "in", In: g.heartbeat("")})
	}
	c.AnswerStep = len(c.Steps)
	c.Steps = append(c.Steps, rig.Step{Op: "in", In: g.logout()})
	c.MaxHB = g.maxHB
	return c
}

func checkC15Callback(c *C15CallbackCase, rec *evid.Rec) (vs []pbt.Violation) {
	hooks := &rig.Hooks{AfterRun: func(h *simplefixgo.DefaultHandler, s *session.Session, log *rig.EventLog) {
		s.OnChangeState(utils.EventLogon, func() bool {
			_ = s.Logout()
			return true
		})
	}}
	tr := rig.RunDirect(outerT, c.Cfg, c.Steps, hooks, c.MaxHB)
	if tr.Trouble != "" {
		return []pbt.Violation{pbt.V("harness", "%s", tr.Trouble)}
	}
	if tr.RunPanic != "" {
		return []pbt.Violation{pbt.V("inbound-panic", "handler.Run panicked: %s", tr.RunPanic)}
	}
	total := 0
	for i := range c.Steps {
		total += logouts(tr.Steps[i].Out)
	}
	if n := logouts(tr.Steps[0].Out); n != 1 {
		vs = append(vs, pbt.V("callback-logout-not-sent", "Logout() called from the application's logon callback must send exactly one Logout, the logon step emitted:%s", showOut(tr.Steps[0])))
	}
	if total != 1 && len(vs) == 0 {
		vs = append(vs, pbt.V("callback-second-logout", "%d Logout messages were sent in a history with one local Logout()", total))
	}
	ans := tr.Steps[c.AnswerStep]
	if ans.Logged && len(vs) == 0 {
		vs = append(vs, pbt.V("still-logged-after-logout", "IsLogged is true after the peer answered the Logout"))
	}
	if n := count(ans.Events, "session:logout"); n != 1 && len(vs) == 0 {
		vs = append(vs, pbt.V("logout-event-count", "the logout event fired %d times when the peer's answer arrived", n))
	}
	rec.Case(evid.FPs(fmt.Sprintf("cb|%s|%d", c.Cfg.Role, len(c.Steps))), true)
	rec.Hist("logout-from-the-logon-callback")
	rec.Hist("callback:role:" + c.Cfg.Role)
	if rec.WantSample() {
		rec.Sample(map[string]any{"engine": "Logout() from the logon callback", "history": showScript(&c.Script)})
	}
	return vs
}

func TestC15Callback(t *testing.T) {
	outerT = t
	rec := evid.New("C15/callback")
	pbt.Run(t, "C15", rec, genC15Callback, checkC15Callback)
}

// ---- C15, Stop called from the application's error callback ----
//
// An application that gives up on the first error calls Session.Stop() from its
// OnError callback. The error here is the session's own answer to a TestRequest
// being refused by an application outgoing handler; the callback runs on the
// inbound goroutine. Stop sends the Logout once and, the peer staying silent,
// ends the session at the close timeout.

type C15ErrCase struct {
	Script
	FailStep int `json:"fail_step"`
}

func genC15Err(t *rapid.T) *C15ErrCase {
	cfg := genCfg(t, "")
	cfg.Approve = "all"
	cfg.HBMin, cfg.HBMax = 40, 60
	cfg.HBInt = rapid.IntRange(40, 60).Draw(t, "hb15err")
	cfg.CloseTimeoutMs = rapid.SampledFrom([]int64{1, 100, 1000, 30000}).Draw(t, "closeTimeout15err")
	g := &hgen{t: t, cfg: cfg, inSeq: 1}
	c := &C15ErrCase{}
	c.Cfg = cfg
	c.Steps = append(c.Steps, rig.Step{Op: "in", In: g.goodLogon(0)})
	for i := rapid.IntRange(0, 3).Draw(t, "before"); i > 0; i-- {
		if rapid.Bool().Draw(t, "fillerKind") {
			c.Steps = append(c.Steps, rig.Step{Op: "in", In: g.testRequest(fmt.Sprint("ok", i))})
		} else {
			c.Steps = append(c.Steps, rig.Step{Op: "send", ID: fmt.Sprint("app", i)})
		}
	}
	c.FailStep = len(c.Steps)
	c.Steps = append(c.Steps, rig.Step{Op: "in", In: g.testRequest("FAIL")})
	c.Steps = append(c.Steps, rig.Step{Op: "advance", Dt: cfg.CloseTimeoutMs*1e6 + 10e6})
	c.MaxHB = g.maxHB
	return c
}

func checkC15Err(c *C15ErrCase, rec *evid.Rec) (vs []pbt.Violation) {
	callbacks := 0
	hooks := &rig.Hooks{
		BeforeRun: func(h *simplefixgo.DefaultHandler, log *rig.EventLog) {
			h.HandleOutgoing(rig.THeartbeat, func(msg simplefixgo.SendingMessage) bool {
				b, err := msg.ToBytes()
				if err != nil {
					return true
				}
				id, _ := ref.Lookup(b, rig.TagTestReqID)
				return !strings.HasPrefix(id, "FAIL") // (the generator may lengthen the ID it was asked for)
			})
		},
		AfterRun: func(h *simplefixgo.DefaultHandler, s *session.Session, log *rig.EventLog) {
			s.OnError(func(error) {
				callbacks++
				if callbacks == 1 {
					_ = s.Stop()
				}
			})
		},
	}
	tr := rig.RunDirect(outerT, c.Cfg, c.Steps, hooks, c.MaxHB)
	if tr.Trouble != "" {
		return []pbt.Violation{pbt.V("harness", "%s", tr.Trouble)}
	}
	if tr.RunPanic != "" {
		return []pbt.Violation{pbt.V("inbound-panic", "handler.Run panicked: %s", tr.RunPanic)}
	}
	if callbacks == 0 {
		return []pbt.Violation{pbt.V("harness:no-error-reported", "the refused answer was not reported to the error callback")}
	}
	total := 0
	for i := range c.Steps {
		total += logouts(tr.Steps[i].Out)
	}
	if total != 1 {
		vs = append(vs, pbt.V("errcallback-logout-count", "Stop() called from the error callback must send exactly one Logout, %d were sent; the step that failed emitted:%s", total, showOut(tr.Steps[c.FailStep])))
	}
	last := tr.Steps[len(c.Steps)-1]
	if !last.CtxDone && len(vs) == 0 {
		vs = append(vs, pbt.V("errcallback-not-ended", "Stop() called from the error callback: %d ms after it (close timeout %d ms, silent peer) the session's context is still not cancelled", c.Cfg.CloseTimeoutMs+10, c.Cfg.CloseTimeoutMs))
	}
	rec.Case(evid.FPs(fmt.Sprintf("err|%s|%d|%d", c.Cfg.Role, len(c.Steps), c.Cfg.CloseTimeoutMs)), true)
	rec.Hist("stop-from-the-error-callback")
	rec.Hist("errcallback:role:" + c.Cfg.Role)
	if rec.WantSample() {
		rec.Sample(map[string]any{"engine": "Stop() from the error callback", "history": showScript(&c.Script)})
	}
	return vs
}

func TestC15ErrCallback(t *testing.T) {
	outerT = t
	rec := evid.New("C15/errcallback")
	pbt.Run(t, "C15", rec, genC15Err, checkC15Err)
}
