package sess

import "testing"

// outerT is the *testing.T that synctest bubbles are started from (each
// generated case runs in its own bubble).
var outerT *testing.T
