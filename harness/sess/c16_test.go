package sess

import (
	"fmt"
	"strconv"
	"testing"

	"pgregory.net/rapid"

	"verif/harness/evid"
	"verif/harness/pbt"
	"verif/harness/rig"
)

// ---------- C16: invalid admin messages: one Reject by sequence number, nothing else changes ----------

type C16Case struct {
	Script
	State        string `json:"state"` // waiting | logged | afterlogout
	Type         string `json:"type"`  // MsgType of the invalid message
	CounterFails bool   `json:"counter_fails,omitempty"`
	ReadsFail    bool   `json:"reads_fail,omitempty"`
	GoodCopy     bool   `json:"good_copy,omitempty"` // the damaged numeric field is followed, further on, by a well-formed field of the same tag
	NegativeSeq  bool   `json:"negative_seq,omitempty"`
	Damage       string `json:"damage"`                // checksum | bodylength | field | seqtext | seqtext+checksum | noseq+checksum | noseq+bodylength | state
	BadStep      int    `json:"badstep"`               // index of the invalid message in Steps
	ResendStep   int    `json:"resend_step,omitempty"` // index of a later ResendRequest 1..0 (0: none)
}

var c16Types = []string{rig.TLogon, rig.TLogout, rig.THeartbeat, rig.TTestRequest, rig.TResendRequest}
var c16Damages = []string{"checksum", "bodylength", "field", "seqtext", "seqtext+checksum", "noseq+checksum", "noseq+bodylength", "state", "checksum-spelling", "bodylength-extreme", "leading-field", "trailing-field"}
var c16States = []string{"waiting", "logged", "afterlogout", "probing"} // probing: logged on, the session's own TestRequest is unanswered

func genC16(t *rapid.T) *C16Case {
	cfg := genCfg(t, "")
	cfg.Approve = "all"
	g := &hgen{t: t, cfg: cfg, inSeq: 1}
	c := &C16Case{
		State:  rapid.SampledFrom(c16States).Draw(t, "state"),
		Type:   rapid.SampledFrom(c16Types).Draw(t, "type"),
		Damage: rapid.SampledFrom(c16Damages).Draw(t, "damage"),
	}
	c.Cfg = cfg
	add := func(s rig.Step) { c.Steps = append(c.Steps, s) }
	filler := func(n int) {
		for i := 0; i < n; i++ {
			switch rapid.IntRange(0, 3).Draw(t, "filler") {
			case 0:
				add(rig.Step{Op: "in", In: g.testRequest(fmt.Sprintf("f%d", i))})
			case 1:
				add(rig.Step{Op: "in", In: g.heartbeat("")})
			case 2:
				add(rig.Step{Op: "send", ID: fmt.Sprintf("app%d", i)})
			default:
				add(rig.Step{Op: "in", In: g.app()})
			}
		}
	}
	if c.State != "waiting" {
		add(rig.Step{Op: "in", In: g.goodLogon(0)})
		filler(rapid.IntRange(0, 3).Draw(t, "prefix"))
		if c.State == "afterlogout" {
			add(rig.Step{Op: "in", In: g.logout()})
		}
		if c.State == "probing" {
			// the peer stays silent until the session has sent its TestRequest; the
			// invalid message is the first thing the peer says afterwards
			T := int64(tolT(g.hb))
			add(rig.Step{Op: "advance", Dt: T + T/10 + 1e6})
		}
	} else if rapid.Bool().Draw(t, "noise") {
		// a refused/ignored message first
		add(rig.Step{Op: "in", In: g.app()})
	}
	if c.State == "logged" && rapid.IntRange(0, 5).Draw(t, "counterFails") == 0 {
		// the counter store stops recording numbers right before the invalid message arrives (not while the
		// session is probing: the session's number-recording all-types handler then refuses the message, the
		// handlers behind it - the one that ends the probing among them - are skipped, and the unmodified
		// library legitimately stays in the probing state)
		add(rig.Step{Op: "counter-fails"})
		c.CounterFails = true
	}
	// the invalid message
	var m *rig.InMsg
	switch c.Type {
	case rig.TLogon:
		m = g.goodLogon(g.hb)
	case rig.TLogout:
		m = g.logout()
	case rig.THeartbeat:
		m = g.heartbeat("")
	case rig.TTestRequest:
		m = g.testRequest("probe")
	default:
		m = g.resend(1, 1)
		if c.State != "logged" && c.State != "probing" && rapid.Bool().Draw(t, "openEnded") {
			// an open-ended request from a peer that is not logged on, while the counter store cannot be read
			m = g.resend(1, 0)
			if rapid.Bool().Draw(t, "readsFail") {
				add(rig.Step{Op: "counter-reads-fail"})
				c.ReadsFail = true
			}
		}
	}
	loggedOn := c.State == "logged" || c.State == "probing"
	permitted := loggedOn != (c.Type == rig.TLogon) // valid Logon only when not logged on; others only when logged on
	if c.Damage == "state" && permitted {
		c.Damage = "checksum" // this (type,state) pair is permitted: fall back to real damage
	}
	by := rapid.IntRange(0, 300).Draw(t, "by")
	switch c.Damage {
	case "checksum", "bodylength", "checksum-spelling", "bodylength-extreme", "leading-field", "trailing-field":
		m.Damage, m.DamageBy = c.Damage, by
	case "field":
		// a numeric field that is not a number: header LastMsgSeqNumProcessed, or the type's own
		switch {
		case c.Type == rig.TResendRequest && rapid.Bool().Draw(t, "ownField"):
			m.Fields[0] = rig.F(rig.TagBeginSeqNo, "x1")
		case c.Type == rig.TLogout && rapid.Bool().Draw(t, "ownField"):
			// the one numeric field of the Logout's own body (EncodedTextLen)
			m.Fields = append(m.Fields, rig.F("354", rapid.SampledFrom([]string{"abc", "3x", "-"}).Draw(t, "badEncLen")), rig.F("355", "xyz"))
		case c.Type == rig.TLogon && rapid.Bool().Draw(t, "ownField"):
			if rapid.Bool().Draw(t, "ownCounter") {
				// the count field of the Logon's own repeating group (NoMsgTypes)
				m.Fields = append(m.Fields, rig.F("384", rapid.SampledFrom([]string{"x", "1x", "two"}).Draw(t, "badCount")))
			} else {
				m.Fields[1] = rig.F(rig.TagHeartBtInt, "3O")
				if rapid.IntRange(0, 2).Draw(t, "goodIntervalBehind") == 0 {
					m.Fields = append(m.Fields, rig.F(rig.TagHeartBtInt, itoa(g.cfg.HBMin)))
					c.GoodCopy = true
				}
			}
		default:
			switch rapid.IntRange(0, 3).Draw(t, "whichField") {
			case 3:
				// a numeric field INSIDE an entry of the header's repeating group (HopRefID of NoHops)
				m.PreSeq = append(m.PreSeq, rig.F("627", "1"), rig.F("628", "HUB"), rig.F("630", rapid.SampledFrom([]string{"abc", "1x", "-"}).Draw(t, "badHopRef")))
			case 0:
				// the count field of the header's repeating group (NoHops)
				m.PreSeq = append(m.PreSeq, rig.F("627", rapid.SampledFrom([]string{"x", "1x", "two"}).Draw(t, "badHops")))
			case 1:
				// a numeric field of the trailer (SignatureLength), right before the CheckSum
				m.Fields = append(m.Fields, rig.F("93", rapid.SampledFrom([]string{"abc", "3x", "-"}).Draw(t, "badSigLen")))
			default:
				m.PreSeq = append(m.PreSeq, rig.F("369", "n/a"))
			}
		}
	case "seqtext":
		good := m.Seq
		m.Seq = rapid.SampledFrom([]string{"abc", "1x", "", " 7"}).Draw(t, "seqText")
		if rapid.IntRange(0, 2).Draw(t, "goodCopyBehind") == 0 {
			// the field occurs a second time further on, well-formed: the first occurrence is the field
			m.Fields = append(m.Fields, rig.F(rig.TagMsgSeqNum, good))
			c.GoodCopy = true
		}
	case "seqtext+checksum":
		m.Seq = rapid.SampledFrom([]string{"abc", "1x", ""}).Draw(t, "seqText")
		m.Damage, m.DamageBy = "checksum", by
	case "noseq+checksum":
		m.NoSeq = true
		m.Damage, m.DamageBy = "checksum", by
	case "noseq+bodylength":
		m.NoSeq = true
		m.Damage, m.DamageBy = "bodylength", by
	}
	if rapid.IntRange(0, 2).Draw(t, "seqLookalike") == 0 {
		// the text 34= in a value, or a tag that ends in 34, somewhere in the message: not the MsgSeqNum
		if rapid.Bool().Draw(t, "lookalikeAhead") {
			m.PreSeq = append(m.PreSeq, rapid.SampledFrom([]rig.Tok{rig.F("5034", "77"), rig.F("50", "GW34=9"), rig.F("134", "77")}).Draw(t, "lookalikeHdr"))
		} else {
			m.Fields = append(m.Fields, rapid.SampledFrom([]rig.Tok{rig.F("134", "77"), rig.F("58", "REF34=77"), rig.F("5034", "1")}).Draw(t, "lookalikeBody"))
		}
	}
	if _, err := strconv.Atoi(m.Seq); err == nil && !m.NoSeq && loggedOn && rapid.IntRange(0, 7).Draw(t, "negativeSeq") == 0 {
		// a MsgSeqNum below zero is a number all the same: the Reject quotes it
		m.Seq = "-" + m.Seq
		c.NegativeSeq = true
	}
	m.Note = c.Damage
	c.BadStep = len(c.Steps)
	add(rig.Step{Op: "in", In: m})
	if c.ReadsFail {
		add(rig.Step{Op: "counter-recovers"})
	}
	// valid traffic that follows
	if loggedOn {
		add(rig.Step{Op: "in", In: g.testRequest("after")})
		if rapid.Bool().Draw(t, "resendAll") {
			// valid traffic that follows includes a ResendRequest for everything sent so far: the Reject is part of it
			c.ResendStep = len(c.Steps)
			add(rig.Step{Op: "in", In: g.resend(1, 0)})
		}
		filler(rapid.IntRange(0, 2).Draw(t, "suffix"))
	} else {
		add(rig.Step{Op: "in", In: g.goodLogon(g.hb)})
		add(rig.Step{Op: "in", In: g.testRequest("after")})
	}
	c.MaxHB = g.maxHB
	return c
}

func checkC16(c *C16Case, rec *evid.Rec) (vs []pbt.Violation) {
	tr := rig.RunDirect(outerT, c.Cfg, c.Steps, nil, c.MaxHB)
	if tr.Trouble != "" {
		return []pbt.Violation{pbt.V("harness", "%s", tr.Trouble)}
	}
	if tr.RunPanic != "" {
		return []pbt.Violation{pbt.V("inbound-panic", "handler.Run panicked: %s", tr.RunPanic)}
	}
	ff := &freshFilter{}
	ff.apply(tr.Setup)
	key := func(what string) string { return what + ":" + c.Type + ":" + c.Damage + ":" + c.State }
	loggedBefore := tr.Setup.Logged
	followedUp := false
	rejectSeq := 0
	for i := range c.Steps {
		res := tr.Steps[i]
		fresh, _ := ff.apply(res)
		st := &c.Steps[i]
		switch {
		case i == c.BadStep:
			if len(fresh) == 1 && fresh[0].Type == rig.TReject {
				rejectSeq = atoi(fresh[0].Seq)
			}
			for _, v := range expectReject(i, st.In, fresh, nil, res) {
				v.Key = key(v.Key)
				vs = append(vs, v)
			}
			if c.State == "probing" {
				loggedBefore = true // IsLogged is false while the session's TestRequest is unanswered, yet the session is logged on: it must be afterwards
			}
			if res.Logged != loggedBefore {
				vs = append(vs, pbt.V(key("logged-changed"), "the invalid %s (%s) changed IsLogged from %v to %v", c.Type, c.Damage, loggedBefore, res.Logged))
			}
			if res.CtxDone || res.RunEnded {
				vs = append(vs, pbt.V(key("session-stopped"), "the invalid %s (%s) stopped the session (ctxDone=%v runEnded=%v runErr=%q)", c.Type, c.Damage, res.CtxDone, res.RunEnded, tr.RunErr))
			}
		case c.ResendStep > 0 && i == c.ResendStep && res.Delivered && rejectSeq > 0:
			found := false
			for _, o := range res.Out {
				if o.Type == rig.TReject && atoi(o.Seq) == rejectSeq {
					found = true
				}
			}
			rec.Hist("followed-by-resend-of-everything")
			if !found {
				vs = append(vs, pbt.V(key("reject-not-resent"), "a valid ResendRequest 1..0 after the invalid %s (%s) is not processed normally: the Reject sent under number %d is not retransmitted:%s", c.Type, c.Damage, rejectSeq, showOut(res)))
			}
		case i == c.BadStep+1+b2i(c.ReadsFail): // (the step in between lets the store recover)
			// normal treatment of the next valid message
			if !res.Delivered {
				break
			}
			followedUp = true
			if c.State == "logged" || c.State == "probing" {
				ok := len(fresh) == 1 && fresh[0].Type == rig.THeartbeat
				if ok {
					id, _ := fresh[0].Get(rig.TagTestReqID)
					ok = id == st.In.Fields[0].Val // the TestReqID of this step
				}
				if !ok {
					vs = append(vs, pbt.V(key("followup-testrequest"), "after the invalid %s (%s) a valid TestRequest is not answered normally:%s", c.Type, c.Damage, showOut(res)))
				}
			} else {
				if !res.Logged {
					vs = append(vs, pbt.V(key("followup-logon"), "after the invalid %s (%s) a valid Logon does not log the session on:%s", c.Type, c.Damage, showOut(res)))
				}
				if c.Cfg.Role == "acceptor" && (len(fresh) == 0 || fresh[0].Type != rig.TLogon) {
					vs = append(vs, pbt.V(key("followup-logon-answer"), "after the invalid %s (%s) a valid Logon is not answered by a Logon:%s", c.Type, c.Damage, showOut(res)))
				}
			}
		}
		loggedBefore = res.Logged
		if len(vs) > 0 {
			break
		}
	}
	rec.Case(evid.FPs(fmt.Sprintf("%s|%s|%s|%s|%d", c.Cfg.Role, c.Type, c.Damage, c.State, c.BadStep)), followedUp)
	rec.Hist("cell:" + c.Type + ":" + c.Damage + ":" + c.State)
	if c.CounterFails {
		rec.Hist("counter-store-fails-before-the-invalid-message")
	}
	if c.ReadsFail {
		rec.Hist("counter-store-unreadable-when-the-invalid-message-arrives")
	}
	if c.NegativeSeq {
		rec.Hist("invalid-message-numbered-below-zero")
	}
	if c.GoodCopy {
		rec.Hist("damaged-field-with-a-good-copy-behind-it")
	}
	rec.Hist("role:" + c.Cfg.Role)
	if rec.WantSample() {
		rec.Sample(map[string]any{"state": c.State, "type": c.Type, "damage": c.Damage, "history": showScript(&c.Script)})
	}
	return vs
}

func TestC16(t *testing.T) {
	outerT = t
	rec := evid.New("C16")
	pbt.Run(t, "C16", rec, genC16, checkC16)
}
