package full

import (
	"bytes"
	"fmt"
	"testing"
	"testing/synctest"
	"time"

	simplefixgo "github.com/b2broker/simplefix-go"
	"github.com/b2broker/simplefix-go/storages/memory"
	"pgregory.net/rapid"

	"verif/harness/evid"
	"verif/harness/netsim"
	"verif/harness/pbt"
	"verif/harness/ref"
	"verif/harness/rig"
)

// ---------- C07, parallel variant: an unauthenticated connection next to a logged-on one on the same acceptor and store ----------

type C07Op struct {
	Kind string `json:"kind"` // resend | testreq | heartbeat | logout | badlogon | app | advance
	B    int    `json:"b,omitempty"`
	E    int    `json:"e,omitempty"`
	Dt   int64  `json:"dt,omitempty"`
}

type C07ParCase struct {
	N     int     `json:"n"`
	Buf   int     `json:"buf"`
	AMsgs int     `json:"a_msgs"` // messages the logged-on session A has produced before B connects
	Ops   []C07Op `json:"ops"`    // what the peer of the unauthenticated connection B does
}

func genC07Par(t *rapid.T) *C07ParCase {
	c := &C07ParCase{N: rapid.SampledFrom([]int{1, 2, 5, 30}).Draw(t, "n"), Buf: rapid.SampledFrom([]int{0, 1, 10}).Draw(t, "buf"),
		AMsgs: rapid.IntRange(1, 8).Draw(t, "aMsgs")}
	for i := rapid.IntRange(1, 15).Draw(t, "nOps"); i > 0; i-- {
		op := C07Op{Kind: rapid.SampledFrom([]string{"resend", "resend", "resend", "testreq", "heartbeat", "logout", "badlogon", "app", "advance", "advance"}).Draw(t, "kind")}
		switch op.Kind {
		case "resend":
			op.B = rapid.IntRange(0, c.AMsgs+3).Draw(t, "b")
			op.E = rapid.SampledFrom([]int{0, op.B, c.AMsgs + 1, op.B + 2}).Draw(t, "e")
		case "advance":
			op.Dt = rapid.Int64Range(1, int64(c.N)*3e9).Draw(t, "dt")
		}
		c.Ops = append(c.Ops, op)
	}
	return c
}

func checkC07Par(c *C07ParCase, rec *evid.Rec) (vs []pbt.Violation) {
	done := pbt.Watch("C07", "TestC07Parallel", c)
	defer done()
	var aStream, bStream []byte
	_, trouble := rig.Bubble(outerT, func() {
		store := memory.NewStorage() // one store for every connection, as in tests/acceptor.go
		cfg := rig.Cfg{Role: "acceptor", HBMin: 1, HBMax: 60, Methods: []string{"0"}, Approve: "user:alice:secret", CloseTimeoutMs: 100, Buf: c.Buf}
		ar := rig.StartAcceptor(c.Buf, time.Minute, func(h simplefixgo.AcceptorHandler) {
			if _, err := rig.AcceptorSession(cfg, h, store, store); err != nil {
				panic(err)
			}
		})
		a, b := netsim.NewConn("A"), netsim.NewConn("B")
		ar.L.Connect(a)
		synctest.Wait()
		aSeq := 1
		a.Feed((&rig.InMsg{Type: rig.TLogon, Seq: fmt.Sprint(aSeq), Sender: "ALICE", Fields: []rig.Tok{rig.F(rig.TagEncryptMethod, "0"), rig.F(rig.TagHeartBtInt, fmt.Sprint(c.N)),
			rig.F(rig.TagUsername, "alice"), rig.F(rig.TagPassword, "secret")}}).Bytes())
		synctest.Wait()
		for i := 1; i < c.AMsgs; i++ {
			aSeq++
			a.Feed((&rig.InMsg{Type: rig.TTestRequest, Seq: fmt.Sprint(aSeq), Sender: "ALICE", Fields: []rig.Tok{rig.F(rig.TagTestReqID, fmt.Sprintf("SECRET-%d", i))}}).Bytes())
			synctest.Wait()
		}
		// A's peer stays alive in the background
		stopA := make(chan struct{})
		aDone := make(chan struct{})
		go func() {
			defer close(aDone)
			tick := time.NewTicker(time.Duration(c.N) * 700 * time.Millisecond)
			defer tick.Stop()
			for {
				select {
				case <-stopA:
					return
				case <-tick.C:
					aSeq++
					a.Feed((&rig.InMsg{Type: rig.THeartbeat, Seq: fmt.Sprint(aSeq), Sender: "ALICE"}).Bytes())
				}
			}
		}()
		ar.L.Connect(b)
		synctest.Wait()
		bSeq := 0
		next := func() string { bSeq++; return fmt.Sprint(bSeq) }
		for _, op := range c.Ops {
			switch op.Kind {
			case "resend":
				b.Feed((&rig.InMsg{Type: rig.TResendRequest, Seq: next(), Sender: "MALLORY", Fields: []rig.Tok{rig.F(rig.TagBeginSeqNo, fmt.Sprint(op.B)), rig.F(rig.TagEndSeqNo, fmt.Sprint(op.E))}}).Bytes())
			case "testreq":
				b.Feed((&rig.InMsg{Type: rig.TTestRequest, Seq: next(), Sender: "MALLORY", Fields: []rig.Tok{rig.F(rig.TagTestReqID, "x")}}).Bytes())
			case "heartbeat":
				b.Feed((&rig.InMsg{Type: rig.THeartbeat, Seq: next(), Sender: "MALLORY"}).Bytes())
			case "logout":
				b.Feed((&rig.InMsg{Type: rig.TLogout, Seq: next(), Sender: "MALLORY"}).Bytes())
			case "badlogon":
				b.Feed((&rig.InMsg{Type: rig.TLogon, Seq: next(), Sender: "MALLORY", Fields: []rig.Tok{rig.F(rig.TagEncryptMethod, "0"), rig.F(rig.TagHeartBtInt, fmt.Sprint(c.N)),
					rig.F(rig.TagUsername, "mallory"), rig.F(rig.TagPassword, "guess")}}).Bytes())
			case "app":
				b.Feed((&rig.InMsg{Type: "D", Seq: next(), Sender: "MALLORY", Fields: []rig.Tok{rig.F("11", "o")}}).Bytes())
			case "advance":
				time.Sleep(time.Duration(op.Dt))
			}
			synctest.Wait()
		}
		close(stopA)
		<-aDone
		aStream, bStream = a.Stream(), b.Stream()
		a.PeerClose()
		b.PeerClose()
		synctest.Wait()
		ar.A.Close()
		time.Sleep(rig.Settle(c.N))
	})
	if trouble != "" {
		return []pbt.Violation{pbt.V("harness", "%s", trouble)}
	}
	aMsgs, _ := ref.Split(aStream, "10")
	bMsgs, _ := ref.Split(bStream, "10")
	intersects := false
	for _, op := range c.Ops {
		if op.Kind == "resend" && op.B >= 1 && op.B <= len(aMsgs) {
			intersects = true
		}
	}
	for _, m := range bMsgs {
		o := rig.Decode(m)
		if o.Type != rig.TLogon && o.Type != rig.TLogout && o.Type != rig.TReject {
			vs = append(vs, pbt.V("parallel:sent-before-logon:"+o.Type, "a message of type %q was sent on the connection whose peer never logged on: %s", o.Type, o.String()))
			break
		}
		for _, am := range aMsgs {
			if bytes.Equal(am, m) {
				vs = append(vs, pbt.V("parallel:leaked-stored-message", "a message of the logged-on session went to the connection whose peer never logged on: %s", o.String()))
			}
		}
		if bytes.Contains(m, []byte("SECRET")) {
			vs = append(vs, pbt.V("parallel:leaked-stored-message", "content of the logged-on session's traffic reached the unauthenticated connection: %s", o.String()))
		}
	}
	rec.Case(evid.FPs(fmt.Sprint(c)), intersects)
	rec.Hist("parallel-session")
	if intersects {
		rec.Hist("parallel:resend-range-intersects-store")
	}
	rec.Extra("parallel_b_messages", int64(len(bMsgs)))
	if rec.WantSample() && intersects {
		rec.Sample(map[string]any{"N": c.N, "logged_on_session_messages": len(aMsgs), "unauthenticated_peer_ops": c.Ops, "sent_to_it": len(bMsgs)})
	}
	if len(vs) > 2 {
		vs = vs[:2]
	}
	return vs
}

func TestC07Parallel(t *testing.T) {
	outerT = t
	rec := evid.New("C07/parallel")
	pbt.Run(t, "C07", rec, genC07Par, checkC07Par)
}
