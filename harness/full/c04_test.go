package full

import (
	"bytes"
	"fmt"
	"os"
	"sort"
	"strings"
	"sync"
	"sync/atomic"
	"testing"
	"testing/synctest"
	"time"

	simplefixgo "github.com/b2broker/simplefix-go"
	"github.com/b2broker/simplefix-go/session/messages"
	fixgen "github.com/b2broker/simplefix-go/tests/fix44"
	"pgregory.net/rapid"

	"verif/harness/evid"
	"verif/harness/netsim"
	"verif/harness/pbt"
	"verif/harness/ref"
	"verif/harness/rig"
)

// ---------- C04: stream reassembly per connection; whole, ordered outbound writes ----------

type ConnScript struct {
	Msgs   [][]byte `json:"msgs"`
	Cuts   []int    `json:"cuts"`   // sorted cut positions inside the concatenated stream
	Delays []int64  `json:"delays"` // virtual ns before each chunk
	Style  string   `json:"style"`
}

type OutOp struct {
	Kind  string   `json:"kind"` // send | batch | raw
	Msgs  [][]byte `json:"msgs"`
	Delay int64    `json:"delay"`
}

type C04Case struct {
	NoCallback  bool         `json:"no_callback,omitempty"` // acceptor without a new-client callback (nil): the application sets its handlers up in its own HandlerFactory
	Announce    int          `json:"announce,omitempty"`    // the outgoing handler sends a raw announcement ahead of every k-th message it is offered (0: never)
	Role        string       `json:"role"`
	Buf         int          `json:"buf"`
	Hangup      bool         `json:"hangup"`               // every peer closes its connection right after its last byte, without waiting
	SlowNs      int64        `json:"slow_ns"`              // virtual time the incoming handler spends on each message (0: none)
	AtOnce      bool         `json:"at_once"`              // all connections are pending at the listener at the same moment
	ReusePair   []string     `json:"reuse_pair,omitempty"` // two MDReqIDs: ONE message object is sent with the first, changed to the second and sent again while the peer is not reading (no other senders in such a case); both must arrive as handed over
	GateEvery   int          `json:"gate_every"`           // > 0: the application's recorder subscribes per message type, and an all-types subscriber registered before it returns false for every k-th message: such a message is still delivered to its type's subscriber
	RemoveAfter int          `json:"remove_after"`         // > 0: every connection has a second all-types subscriber, which the application removes (with the id it was given) from inside the first one's k-th call; the first one must go on receiving
	SetupNs     int64        `json:"setup_ns"`             // acceptor: virtual time the new-client callback takes before it registers its handlers, while the peer's first bytes are already arriving
	Conns       []ConnScript `json:"conns"`
	Senders     [][]OutOp    `json:"senders"`
}

var c04Types = []string{"D", "0", "A", "8", "V", "AE", "10", "1"}

// subscribe registers the recorder of one connection: for all types, or - with a
// refusing all-types gate in front - once per message type.
func subscribe(c *C04Case, h interface {
	HandleIncoming(string, simplefixgo.IncomingHandlerFunc) int64
}, r *recorder) {
	if c.GateEvery == 0 {
		h.HandleIncoming(simplefixgo.AllMsgTypes, r.handle)
		return
	}
	var n atomic.Int64
	h.HandleIncoming(simplefixgo.AllMsgTypes, func([]byte) bool { return n.Add(1)%int64(c.GateEvery) != 0 })
	for _, typ := range c04Types {
		h.HandleIncoming(typ, r.handle)
	}
}

var tricky = []string{"10=", "10=123", "|10=000|", "x10=", "=10=", "110=5", "10", "1", "10=0\x0010=1",
	// the other boundary: the text that opens a message (BeginString, BodyLength), quoted in a value or continuing a longer tag
	"FIX.4.4", "FIXBROKER", "8=FIX.4.4", "cannot parse 8=FIX.4.4 9=1x", "x8=FIX", "9=12", "FIX"}

func genWireMsg(t *rapid.T, id string) []byte {
	nf := rapid.IntRange(0, 6).Draw(t, "nFields")
	toks := []ref.Tok{rig.F("11", id)}
	for i := 0; i < nf; i++ {
		tag := rapid.SampledFrom([]string{"58", "110", "210", "1010", "100", "55", "1", "101", "9910", "448", "48", "148", "109", "19"}).Draw(t, "tag")
		var val string
		switch rapid.IntRange(0, 9).Draw(t, "valKind") {
		case 0, 1, 2, 3:
			val = rapid.SampledFrom(tricky).Draw(t, "tricky")
		case 4:
			val = string(bytes.Repeat([]byte("10="), rapid.IntRange(1, 7000).Draw(t, "bigLen")))
		default:
			val = rapid.StringMatching(`[ -~]{1,30}`).Draw(t, "val")
		}
		toks = append(toks, rig.F(tag, val))
	}
	typ := rapid.SampledFrom(c04Types).Draw(t, "type")
	return ref.Assemble(ref.StdTags, "FIX.4.4", typ, toks)
}

func genConnScript(t *rapid.T, ci int) ConnScript {
	cs := ConnScript{}
	n := rapid.IntRange(1, 30).Draw(t, "nMsgs")
	total := 0
	var checksumCuts []int
	for i := 0; i < n; i++ {
		m := genWireMsg(t, fmt.Sprintf("c%d-m%d", ci, i))
		cs.Msgs = append(cs.Msgs, m)
		total += len(m)
		// positions inside the CheckSum field: ...|1^0=ddd| and ...|10=^ddd|
		checksumCuts = append(checksumCuts, total-6, total-5, total-4, total-2)
	}
	cs.Style = rapid.SampledFrom([]string{"one-byte", "random", "inside-checksum", "coalesced", "big-chunks"}).Draw(t, "style")
	set := map[int]bool{}
	switch cs.Style {
	case "one-byte":
		for p := 1; p < total; p++ {
			set[p] = true
		}
	case "random":
		k := rapid.IntRange(0, 40).Draw(t, "nCuts")
		for i := 0; i < k && total > 1; i++ {
			set[rapid.IntRange(1, total-1).Draw(t, "cut")] = true
		}
	case "inside-checksum":
		for _, p := range checksumCuts {
			if p > 0 && p < total && rapid.Bool().Draw(t, "useCut") {
				set[p] = true
			}
		}
	case "coalesced":
		// no cuts at all, or a few: many messages per read
		if total > 1 && rapid.Bool().Draw(t, "oneCut") {
			set[rapid.IntRange(1, total-1).Draw(t, "cut")] = true
		}
	case "big-chunks":
		for p := 5000; p < total; p += 5000 {
			set[p] = true
		}
	}
	for p := range set {
		cs.Cuts = append(cs.Cuts, p)
	}
	sort.Ints(cs.Cuts)
	for i := 0; i <= len(cs.Cuts); i++ {
		cs.Delays = append(cs.Delays, rapid.SampledFrom([]int64{0, 0, 1, 1000, 1e6, 3e9}).Draw(t, "delay"))
	}
	return cs
}

func genC04(t *rapid.T) *C04Case {
	c := &C04Case{
		Role: rapid.SampledFrom([]string{"acceptor", "initiator"}).Draw(t, "role"),
		Buf:  rapid.SampledFrom([]int{0, 1, 10}).Draw(t, "buf"),
	}
	c.Hangup = rapid.IntRange(0, 3).Draw(t, "hangup") == 0
	if os.Getenv("VERIF_PROPERTY") == "C18" {
		c.Hangup = false // as part of C18 only the boundary recognition matters
	}
	if rapid.IntRange(0, 3).Draw(t, "slow") == 0 {
		c.SlowNs = rapid.SampledFrom([]int64{1, 1e6, 50e6}).Draw(t, "slowNs")
	}
	if c.Role == "initiator" {
		// When an initiator's connection ends while its handler is still busy,
		// Initiator.Serve holds a sync.Once (a mutex) around StopWithError and a
		// second goroutine queues on it, and its forwarding loop spins on the
		// closed reader channel; neither is a durable wait, so the bubble's clock
		// stops and a virtual sleep inside a handler would never end.
		c.SlowNs = 0
	}
	nc := 1
	if c.Role == "acceptor" {
		nc = rapid.IntRange(1, 4).Draw(t, "nConns")
		c.AtOnce = nc > 1 && rapid.Bool().Draw(t, "atOnce")
		if rapid.IntRange(0, 2).Draw(t, "slowSetup") == 0 {
			c.SetupNs = rapid.SampledFrom([]int64{1, 1e6, 2e9}).Draw(t, "setupNs")
		}
		c.NoCallback = rapid.IntRange(0, 3).Draw(t, "noCallback") == 0
	}
	for i := 0; i < nc; i++ {
		c.Conns = append(c.Conns, genConnScript(t, i))
	}
	if rapid.IntRange(0, 4).Draw(t, "gated") == 0 {
		c.GateEvery = rapid.IntRange(1, 4).Draw(t, "gateEvery")
	}
	if c.GateEvery == 0 && rapid.IntRange(0, 4).Draw(t, "removesSubscriber") == 0 {
		c.RemoveAfter = rapid.IntRange(1, 5).Draw(t, "removeAfter")
	}
	if rapid.IntRange(0, 5).Draw(t, "reusePair") == 0 {
		a := rapid.StringMatching(`[A-Z]{4,20}`).Draw(t, "pairFirst")
		b := rapid.StringMatching(`[a-z]{1,20}`).Draw(t, "pairSecond")
		c.ReusePair = []string{a, b}
		return c
	}
	ns := rapid.IntRange(0, 6).Draw(t, "nSenders")
	for s := 0; s < ns; s++ {
		var ops []OutOp
		no := rapid.IntRange(1, 8).Draw(t, "nOps")
		k := 0
		for o := 0; o < no; o++ {
			op := OutOp{Kind: rapid.SampledFrom([]string{"send", "send", "batch", "raw"}).Draw(t, "opKind"),
				Delay: rapid.SampledFrom([]int64{0, 0, 1, 1000, 1e6}).Draw(t, "opDelay")}
			nm := 1
			if op.Kind == "batch" {
				nm = rapid.IntRange(1, 5).Draw(t, "batchN")
			}
			for j := 0; j < nm; j++ {
				op.Msgs = append(op.Msgs, genWireMsg(t, fmt.Sprintf("s%d-%d", s, k)))
				k++
			}
			ops = append(ops, op)
		}
		c.Senders = append(c.Senders, ops)
	}
	if ns > 0 && rapid.IntRange(0, 3).Draw(t, "announce") == 0 {
		// the application's outgoing handler announces every k-th message it is offered with a raw
		// message of its own (SendRaw from inside the handler): the announcement leaves first
		c.Announce = rapid.IntRange(1, 3).Draw(t, "announceEvery")
	}
	return c
}

type recorder struct {
	mu     sync.Mutex
	got    [][]byte
	inside int32
	reent  bool
	slow   time.Duration
	open   int    // messages delivered before the peers closed their connections
	after  int    // after this many calls ...
	then   func() // ... do this once (from inside the handler)
}

func (r *recorder) handle(data []byte) bool {
	if atomic.AddInt32(&r.inside, 1) != 1 {
		r.reent = true
	}
	if r.slow > 0 {
		time.Sleep(r.slow)
	}
	r.mu.Lock()
	r.got = append(r.got, append([]byte(nil), data...))
	fire := r.then != nil && len(r.got) == r.after
	r.mu.Unlock()
	if fire {
		r.then()
	}
	atomic.AddInt32(&r.inside, -1)
	return true
}

func msgID(b []byte) string { v, _ := ref.Lookup(b, "11"); return v }

type sender interface {
	Send(message simplefixgo.SendingMessage) error
}

func checkC04(c *C04Case, rec *evid.Rec) (vs []pbt.Violation) {
	done := pbt.Watch("C04", "TestC04", c)
	defer done()
	// the oracle below reorders its view of the connections: work on a copy, the
	// case itself (which becomes the replay file on a failure) stays as generated
	cp := *c
	cp.Conns = append([]ConnScript(nil), c.Conns...)
	c = &cp
	recs := make([]*recorder, len(c.Conns))
	for i := range recs {
		recs[i] = &recorder{slow: time.Duration(c.SlowNs)}
	}
	conns := make([]*netsim.Conn, len(c.Conns))
	var handOff []string   // order in which the all-types outgoing handler saw messages
	var announced [][]byte // raw announcements the outgoing handler sent itself
	var hoMu sync.Mutex
	var outErrs []string
	var returned, connsClosed bool
	leak, trouble := rig.Bubble(outerT, func() {
		var h0 interface {
			Send(simplefixgo.SendingMessage) error
			SendBatch([]simplefixgo.SendingMessage) error
			SendRaw([]byte) error
		}
		outHandler := func(msg simplefixgo.SendingMessage) bool {
			b, _ := msg.ToBytes()
			hoMu.Lock()
			handOff = append(handOff, msgID(b))
			k := len(handOff)
			hoMu.Unlock()
			if c.Announce > 0 && k%c.Announce == 0 && h0 != nil {
				ann := ref.Assemble(ref.StdTags, "FIX.4.4", "B", []ref.Tok{rig.F("11", "ann-"+msgID(b)), rig.F("58", "next: "+msgID(b))})
				hoMu.Lock()
				announced = append(announced, ann)
				hoMu.Unlock()
				_ = h0.SendRaw(ann)
			}
			return true
		}
		var ar *rig.AcceptorRig
		var ir *rig.InitiatorRig
		ready0 := make(chan struct{}) // closed once the first connection's handlers are registered
		if c.Role == "acceptor" {
			var next atomic.Int32 // callbacks of connections pending at once run on their own goroutines
			start := rig.StartAcceptor
			if c.NoCallback {
				start = rig.StartAcceptorNoCallback // same set-up, done in the application's own handler factory
			}
			ar = start(c.Buf, 10*time.Second, func(h simplefixgo.AcceptorHandler) {
				i := int(next.Add(1)) - 1
				if c.SetupNs > 0 {
					time.Sleep(time.Duration(c.SetupNs)) // the application takes its time; the peer does not wait
				}
				subscribe(c, h, recs[i])
				if c.RemoveAfter > 0 {
					id2 := h.HandleIncoming(simplefixgo.AllMsgTypes, func([]byte) bool { return true })
					recs[i].after, recs[i].then = c.RemoveAfter, func() { _ = h.RemoveIncomingHandler(simplefixgo.AllMsgTypes, id2) }
				}
				if i == 0 {
					h.HandleOutgoing(simplefixgo.AllMsgTypes, outHandler)
					h0 = h
					close(ready0)
				}
			})
			for i := range c.Conns {
				conns[i] = netsim.NewConn(fmt.Sprint(i))
				ar.L.Connect(conns[i])
				if !c.AtOnce {
					synctest.Wait() // accepted and handed to handleNewClient, in this order
				}
			}
			synctest.Wait()
		} else {
			ir = rig.NewInitiatorRig(c.Buf, 10*time.Second)
			conns[0] = ir.C
			subscribe(c, ir.H, recs[0])
			if c.RemoveAfter > 0 {
				id2 := ir.H.HandleIncoming(simplefixgo.AllMsgTypes, func([]byte) bool { return true })
				recs[0].after, recs[0].then = c.RemoveAfter, func() { _ = ir.H.RemoveIncomingHandler(simplefixgo.AllMsgTypes, id2) }
			}
			ir.H.HandleOutgoing(simplefixgo.AllMsgTypes, outHandler)
			h0 = ir.H
			close(ready0)
			ir.Serve()
			synctest.Wait()
		}
		if len(c.ReusePair) == 2 {
			<-ready0
			conns[0].Stall(true) // the peer is not reading: what is handed over stays queued / with the writer
			obj := fixgen.NewMarketDataRequestReject()
			obj.SetMDReqID(c.ReusePair[0])
			go func() { _ = h0.Send(obj) }()
			synctest.Wait()
			obj.SetMDReqID(c.ReusePair[1]) // the application re-uses its message object for the next send
			go func() { _ = h0.Send(obj) }()
			synctest.Wait()
			conns[0].Stall(false)
			synctest.Wait()
		}
		var wg sync.WaitGroup
		for i := range c.Conns {
			i := i
			wg.Add(1)
			go func() {
				defer wg.Done()
				cs := &c.Conns[i]
				stream := bytes.Join(cs.Msgs, nil)
				prev := 0
				cuts := append(append([]int{}, cs.Cuts...), len(stream))
				for k, p := range cuts {
					if d := cs.Delays[k%len(cs.Delays)]; d > 0 {
						time.Sleep(time.Duration(d))
					}
					conns[i].Feed(stream[prev:p])
					prev = p
				}
				if c.Hangup {
					conns[i].PeerClose()
				}
			}()
		}
		for s := range c.Senders {
			s := s
			wg.Add(1)
			go func() {
				defer wg.Done()
				<-ready0
				for _, op := range c.Senders[s] {
					if op.Delay > 0 {
						time.Sleep(time.Duration(op.Delay))
					}
					var err error
					switch op.Kind {
					case "send":
						err = h0.Send(messages.NewMockMessage("D", op.Msgs[0], nil))
					case "raw":
						err = h0.SendRaw(op.Msgs[0])
					case "batch":
						var ms []simplefixgo.SendingMessage
						for _, b := range op.Msgs {
							ms = append(ms, messages.NewMockMessage("D", b, nil))
						}
						err = h0.SendBatch(ms)
					}
					if err != nil {
						hoMu.Lock()
						outErrs = append(outErrs, err.Error())
						hoMu.Unlock()
					}
				}
			}()
		}
		wg.Wait()
		synctest.Wait()
		time.Sleep(time.Duration(c.SlowNs)*40 + time.Duration(c.SetupNs)*time.Duration(len(c.Conns)) + time.Second) // slow callbacks and handlers finish their backlog
		synctest.Wait()
		// what has been delivered while every connection is still open
		for i := range recs {
			recs[i].mu.Lock()
			recs[i].open = len(recs[i].got)
			recs[i].mu.Unlock()
		}
		// end of case: peers close, then the local side shuts down
		for _, cn := range conns {
			cn.PeerClose()
		}
		synctest.Wait()
		time.Sleep(time.Second)
		if ar != nil {
			ar.A.Close()
			synctest.Wait()
			time.Sleep(time.Second)
			returned = ar.Returned()
		} else {
			synctest.Wait()
			returned = ir.Returned()
			if !returned {
				ir.I.Close()
				time.Sleep(time.Second)
			}
		}
		connsClosed = true
		for _, cn := range conns {
			if cl, _ := cn.IsClosed(); !cl {
				connsClosed = false
			}
		}
	})
	if trouble != "" {
		return []pbt.Violation{pbt.V("harness", "%s", trouble)}
	}
	if leak != "" {
		rec.Hist("bubble-ended-with-blocked-goroutines") // C13's business, not judged here
	}
	_ = returned
	_ = connsClosed
	// ---- inbound oracle ----
	if c.AtOnce {
		// which handler serves which connection is not known beforehand: identify
		// each recorder by the connection its first message came from; a recorder
		// that mixes connections stays where it is and fails the comparison below
		byConn := make([]*recorder, len(recs))
		var spare []*recorder
		for _, r := range recs {
			ci := -1
			if len(r.got) > 0 {
				fmt.Sscanf(msgID(r.got[0]), "c%d-", &ci)
			}
			if ci >= 0 && ci < len(byConn) && byConn[ci] == nil {
				byConn[ci] = r
			} else {
				spare = append(spare, r)
			}
		}
		for i := range byConn {
			if byConn[i] == nil && len(spare) > 0 {
				byConn[i], spare = spare[0], spare[1:]
			}
		}
		copy(recs, byConn)
		// outbound messages were sent through whichever handler was created first
		for i, cn := range conns {
			if len(cn.Stream()) > 0 && i != 0 {
				conns[0], conns[i] = conns[i], conns[0]
				c.Conns[0], c.Conns[i] = c.Conns[i], c.Conns[0]
				recs[0], recs[i] = recs[i], recs[0]
				break
			}
		}
	}
	nontrivial := false
	for i := range c.Conns {
		cs := &c.Conns[i]
		r := recs[i]
		if r.reent {
			vs = append(vs, pbt.V("reentrant-delivery", "connection %d: the incoming handler was entered while a previous call was still running", i))
		}
		if !c.Hangup && r.open < len(cs.Msgs) && len(r.got) == len(cs.Msgs) {
			vs = append(vs, pbt.V("inbound-late:"+cs.Style, "connection %d (%s, role %s, %d connections): only %d of %d messages had been delivered while the connection was still open (long after the last byte arrived); the rest came when the connections were closed", i, cs.Style, c.Role, len(c.Conns), r.open, len(cs.Msgs)))
			continue
		}
		if len(r.got) != len(cs.Msgs) {
			// a peer that hangs up right after its last byte: the messages still
			// in transit between the reader and the handler are dropped (known
			// finding). In transit can be: one in the reader's hand, one in the
			// forwarder's hand, plus the connection's reader channel (acceptor: 0,
			// initiator: buf). Anything beyond that window is not that finding.
			window := 2
			if c.Role == "initiator" {
				window += c.Buf
			}
			// delivered must be a subsequence of sent whose gaps all lie in the last `window` messages
			tailOnly := len(r.got) < len(cs.Msgs)
			k := 0
			for idx, m := range cs.Msgs {
				if k < len(r.got) && bytes.Equal(r.got[k], m) {
					k++
				} else if idx < len(cs.Msgs)-window {
					tailOnly = false
				}
			}
			if k != len(r.got) {
				tailOnly = false
			}
			if c.Hangup && tailOnly {
				vs = append(vs, pbt.V("inbound-tail-lost-at-hangup", "connection %d (%s, role %s, buf %d): the peer sent %d messages and closed at once; %d of the last %d were not delivered", i, cs.Style, c.Role, c.Buf, len(cs.Msgs), len(cs.Msgs)-len(r.got), window))
				continue
			}
			vs = append(vs, pbt.V("inbound-count:"+cs.Style, "connection %d (%s, role %s, buf %d, hangup %v): %d messages sent, %d delivered", i, cs.Style, c.Role, c.Buf, c.Hangup, len(cs.Msgs), len(r.got)))
			continue
		}
		for k := range cs.Msgs {
			if !bytes.Equal(r.got[k], cs.Msgs[k]) {
				vs = append(vs, pbt.V("inbound-differs:"+cs.Style, "connection %d message %d: sent %s delivered %s", i, k, ref.Show(cs.Msgs[k]), ref.Show(r.got[k])))
				break
			}
		}
		// non-trivial: a cut strictly inside a message, or >=2 messages completed by one chunk
		bounds := map[int]bool{}
		tot := 0
		for _, m := range cs.Msgs {
			tot += len(m)
			bounds[tot] = true
		}
		inside := false
		for _, p := range cs.Cuts {
			if !bounds[p] {
				inside = true
			}
		}
		if len(cs.Msgs) >= 2 && (inside || len(cs.Cuts) < len(cs.Msgs)-1) {
			nontrivial = true
		}
		rec.Hist("style:" + cs.Style)
	}
	if len(c.ReusePair) == 2 && len(conns) > 0 {
		msgs, rest := ref.Split(conns[0].Stream(), "10")
		var ids []string
		for _, m := range msgs {
			id, _ := ref.Lookup(m, "262")
			ids = append(ids, id)
			if err := ref.Framed(m, ref.StdTags); err != nil {
				vs = append(vs, pbt.V("outbound-reused-object-torn", "one message object sent twice (MDReqID %q, then %q) while the peer was not reading: a message on the wire is not well formed (%v): %s", c.ReusePair[0], c.ReusePair[1], err, ref.Show(m)))
				break
			}
		}
		if len(vs) == 0 && (len(rest) != 0 || fmt.Sprint(ids) != fmt.Sprint(c.ReusePair)) {
			vs = append(vs, pbt.V("outbound-reused-object", "one message object sent twice (MDReqID %q, then %q) while the peer was not reading: the wire carries MDReqIDs %v (rest %q)", c.ReusePair[0], c.ReusePair[1], ids, rest))
		}
		rec.Hist("one-object-sent-twice-while-peer-stalled")
	}
	// ---- outbound oracle ----
	if len(c.Senders) > 0 && len(conns) > 0 {
		captured := conns[0].Stream()
		msgs, rest := ref.Split(captured, "10")
		if len(rest) != 0 {
			vs = append(vs, pbt.V("outbound-torn", "outbound stream ends with an incomplete message: %s", ref.Show(rest)))
		}
		handed := map[string][]byte{}
		for _, a := range announced {
			handed[msgID(a)] = a
		}
		var total int
		for _, ops := range c.Senders {
			for _, op := range ops {
				for _, m := range op.Msgs {
					handed[msgID(m)] = m
					total++
				}
			}
		}
		seen := map[string]int{}
		var wireOrder []string
		for _, m := range msgs {
			id := msgID(m)
			seen[id]++
			wireOrder = append(wireOrder, id)
			want, ok := handed[id]
			if !ok || !bytes.Equal(want, m) {
				vs = append(vs, pbt.V("outbound-garbled", "outbound stream holds a message that was not handed over as such: %s", ref.Show(m)))
				break
			}
		}
		if len(outErrs) == 0 && !c.Hangup {
			for id := range handed {
				if seen[id] != 1 {
					vs = append(vs, pbt.V("outbound-count", "message %s was handed over once and appears %d times on the wire", id, seen[id]))
					break
				}
			}
		}
		// an announcement leaves before the message it announces
		pos := map[string]int{}
		for i, id := range wireOrder {
			pos[id] = i
		}
		for _, a := range announced {
			id := msgID(a)
			pa, oka := pos[id]
			pm, okm := pos[strings.TrimPrefix(id, "ann-")]
			if oka && okm && pa > pm && len(vs) == 0 {
				vs = append(vs, pbt.V("outbound-announcement-order", "the announcement %s, sent with SendRaw from inside the outgoing handler, left after the message it announces (wire order %v)", id, wireOrder))
			}
		}
		if len(announced) > 0 {
			rec.Hist("raw-announcement-from-the-outgoing-handler")
		}
		// Send/SendBatch: wire order = hand-off order seen by the outgoing handler
		viaHandler := map[string]bool{}
		for _, id := range handOff {
			viaHandler[id] = true
		}
		var wireHandled []string
		for _, id := range wireOrder {
			if viaHandler[id] {
				wireHandled = append(wireHandled, id)
			}
		}
		if c.Hangup {
			// the connection went away under the senders: what did leave must still be in hand-off order
			handOff = subsequenceOf(wireHandled, handOff)
		}
		if len(outErrs) == 0 && fmt.Sprint(wireHandled) != fmt.Sprint(handOff) {
			vs = append(vs, pbt.V("outbound-order", "messages left in order %v, they were handed off in order %v", wireHandled, handOff))
		}
		// SendRaw: per-goroutine FIFO
		for s, ops := range c.Senders {
			var want []string
			for _, op := range ops {
				if op.Kind == "raw" {
					want = append(want, msgID(op.Msgs[0]))
				}
			}
			isWant := map[string]bool{}
			for _, id := range want {
				isWant[id] = true
			}
			var got []string
			for _, id := range wireOrder {
				if isWant[id] {
					got = append(got, id)
				}
			}
			if c.Hangup {
				want = subsequenceOf(got, want)
			}
			if len(outErrs) == 0 && fmt.Sprint(got) != fmt.Sprint(want) {
				vs = append(vs, pbt.V("outbound-raw-order", "sender %d: SendRaw messages left in order %v, handed in order %v", s, got, want))
			}
		}
		if len(c.Senders) >= 2 {
			rec.Hist("concurrent-senders")
		}
		rec.Extra("outbound_messages", int64(total))
	}
	rec.Case(evid.FPs(fmt.Sprint(c.Role, c.Buf, len(c.Conns), len(c.Senders), lens(c))), nontrivial)
	if c.NoCallback {
		rec.Hist("acceptor-without-new-client-callback")
	}
	rec.Hist("role:" + c.Role)
	if c.Hangup {
		rec.Hist("peer-hangs-up-after-last-byte")
	}
	if c.SlowNs > 0 {
		rec.Hist("slow-incoming-handler")
	}
	if c.AtOnce {
		rec.Hist("connections-pending-at-once")
	}
	if c.SetupNs > 0 {
		rec.Hist("slow-new-client-callback")
	}
	if c.RemoveAfter > 0 {
		rec.Hist("application-removes-a-subscriber")
	}
	if c.GateEvery > 0 {
		rec.Hist("per-type-subscribers-behind-a-refusing-gate")
	}
	rec.Hist(fmt.Sprintf("buf=%d", c.Buf))
	rec.Hist(fmt.Sprintf("connections=%d", len(c.Conns)))
	if rec.WantSample() && nontrivial {
		cs := c.Conns[0]
		rec.Sample(map[string]any{"role": c.Role, "buf": c.Buf, "connections": len(c.Conns), "style": cs.Style, "messages": len(cs.Msgs), "cuts": len(cs.Cuts), "first_message": ref.Show(cs.Msgs[0])[:min(200, len(ref.Show(cs.Msgs[0])))], "senders": len(c.Senders)})
	}
	if len(vs) > 3 {
		vs = vs[:3]
	}
	return vs
}

func lens(c *C04Case) string {
	s := ""
	for _, cs := range c.Conns {
		s += fmt.Sprintf("|%s:%d:%v", cs.Style, len(cs.Msgs), cs.Cuts)
	}
	return s
}

func TestC04(t *testing.T) {
	outerT = t
	rec := evid.New("C04")
	pbt.Run(t, "C04", rec, genC04, checkC04)
}

// subsequenceOf returns got if got is a subsequence of all (same relative
// order), otherwise all unchanged.
func subsequenceOf(got, all []string) []string {
	k := 0
	for _, x := range all {
		if k < len(got) && got[k] == x {
			k++
		}
	}
	if k == len(got) {
		return got
	}
	return all
}
