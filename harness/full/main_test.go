package full

import "testing"

var outerT *testing.T
