package full

import (
	"fmt"
	"sync/atomic"
	"testing"
	"testing/synctest"
	"time"

	simplefixgo "github.com/b2broker/simplefix-go"
	"github.com/b2broker/simplefix-go/fix"
	"github.com/b2broker/simplefix-go/session"
	"github.com/b2broker/simplefix-go/storages/memory"
	"pgregory.net/rapid"

	"verif/harness/evid"
	"verif/harness/netsim"
	"verif/harness/pbt"
	"verif/harness/ref"
	"verif/harness/rig"
)

// ---------- C05 with several connections served from one session.Opts (and one settings object) ----------
//
// An acceptor application builds its session.Opts (and often its LogonSettings)
// once and creates the session of every connection from them. Every message a
// session sends must still carry that session's own consecutive numbers and the
// identifiers mirrored from ITS peer's Logon, whatever the sibling sessions send
// meanwhile. The schedule is owned by the harness: the store of one connection
// holds back one Save (a store with latency) while the other connections are
// served, then lets it go.

type SharedOp struct {
	Conn int    `json:"conn"`
	Kind string `json:"kind"` // testreq | bad | peer-logout | local-logout | app-send | relogon (after a peer-logout: the peer logs on again on the same connection under another CompID)
}

type C05SharedCase struct {
	Buf           int        `json:"buf"`
	Conns         int        `json:"conns"`
	ShareSettings bool       `json:"share_settings"` // the same *LogonSettings is handed to every session as well
	Before        []SharedOp `json:"before"`
	Held          SharedOp   `json:"held"`      // its first outgoing Save is held back ...
	Meanwhile     []SharedOp `json:"meanwhile"` // ... while these run on the other connections
	After         []SharedOp `json:"after"`
}

var sharedKinds = []string{"testreq", "testreq", "bad", "peer-logout", "local-logout", "app-send", "app-send"}

func genC05Shared(t *rapid.T) *C05SharedCase {
	c := &C05SharedCase{Buf: rapid.SampledFrom([]int{0, 1, 10}).Draw(t, "buf"), Conns: rapid.IntRange(2, 3).Draw(t, "conns"),
		ShareSettings: rapid.Bool().Draw(t, "shareSettings")}
	gone := map[int]bool{}
	loggedOut := map[int]bool{}
	op := func(lbl string, not int) (SharedOp, bool) {
		var cand []int
		for i := 0; i < c.Conns; i++ {
			if !gone[i] && i != not {
				cand = append(cand, i)
			}
		}
		if len(cand) == 0 {
			return SharedOp{}, false
		}
		o := SharedOp{Conn: rapid.SampledFrom(cand).Draw(t, lbl+"Conn"), Kind: rapid.SampledFrom(sharedKinds).Draw(t, lbl+"Kind")}
		if loggedOut[o.Conn] {
			if lbl == "held" {
				return SharedOp{}, false
			}
			o.Kind = "relogon"
			loggedOut[o.Conn] = false
			return o, true
		}
		if o.Kind == "peer-logout" {
			loggedOut[o.Conn] = true
		}
		if o.Kind == "local-logout" {
			gone[o.Conn] = true
		}
		return o, true
	}
	for i := rapid.IntRange(0, 3).Draw(t, "nBefore"); i > 0; i-- {
		if o, ok := op("before", -1); ok {
			c.Before = append(c.Before, o)
		}
	}
	held, ok := op("held", -1)
	if !ok {
		held = SharedOp{Conn: 0, Kind: "testreq"}
	}
	c.Held = held
	for i := rapid.IntRange(1, 4).Draw(t, "nMeanwhile"); i > 0; i-- {
		if o, ok := op("meanwhile", c.Held.Conn); ok {
			c.Meanwhile = append(c.Meanwhile, o)
		}
	}
	for i := rapid.IntRange(0, 3).Draw(t, "nAfter"); i > 0; i-- {
		if o, ok := op("after", -1); ok {
			c.After = append(c.After, o)
		}
	}
	return c
}

// gateStore holds the next outgoing Save until released, when armed.
type gateStore struct {
	*memory.Storage
	armed   atomic.Bool
	entered chan struct{}
	release chan struct{}
}

func (s *gateStore) Save(id fix.StorageID, msg simplefixgo.SendingMessage, seq int) error {
	if s.armed.CompareAndSwap(true, false) {
		close(s.entered)
		<-s.release
	}
	return s.Storage.Save(id, msg, seq)
}

func checkC05Shared(c *C05SharedCase, rec *evid.Rec) (vs []pbt.Violation) {
	done := pbt.Watch("C05", "TestC05Shared", c)
	defer done()
	streams := make([][]byte, c.Conns)
	heldPending, meanwhileRan := false, 0
	type idCut struct {
		off int
		id  string
	}
	cuts := make([][]idCut, c.Conns) // from stream offset off on, the connection's messages go to identity id
	peerID := make([]string, c.Conns)
	for i := range peerID {
		peerID[i] = fmt.Sprintf("PEER%d", i)
	}
	relogons := 0
	_, trouble := rig.Bubble(outerT, func() {
		cfg := rig.Cfg{Role: "acceptor", HBMin: 1, HBMax: 60, HBInt: 30, Methods: []string{"0"}, Approve: "all", CloseTimeoutMs: 100, Buf: c.Buf,
			Sender: "LIB", Target: "PEER", User: "alice", Pass: "secret"}
		opts := rig.OptsFor(cfg) // ONE options object for every session
		settings := rig.AcceptorSettings(cfg)
		stores := make([]*gateStore, c.Conns)
		sessions := make([]*session.Session, c.Conns)
		var next atomic.Int32
		ar := rig.StartAcceptor(c.Buf, time.Minute, func(h simplefixgo.AcceptorHandler) {
			i := int(next.Add(1)) - 1
			stores[i] = &gateStore{Storage: memory.NewStorage(), entered: make(chan struct{}), release: make(chan struct{})}
			st := settings
			if !c.ShareSettings {
				st = rig.AcceptorSettings(cfg)
			}
			s, err := rig.AcceptorSessionShared(opts, st, cfg, h, stores[i], stores[i])
			if err != nil {
				panic(err)
			}
			sessions[i] = s
		})
		conns := make([]*netsim.Conn, c.Conns)
		seqs := make([]int, c.Conns)
		peer := func(i int) string { return peerID[i] }
		in := func(i int, m *rig.InMsg) {
			seqs[i]++
			m.Seq, m.Sender, m.Target = fmt.Sprint(seqs[i]), peer(i), "LIB"
			conns[i].Feed(m.Bytes())
		}
		for i := range conns {
			conns[i] = netsim.NewConn(fmt.Sprint(i))
			ar.L.Connect(conns[i])
			synctest.Wait() // accepted in this order
			in(i, &rig.InMsg{Type: rig.TLogon, Fields: []rig.Tok{rig.F(rig.TagEncryptMethod, "0"), rig.F(rig.TagHeartBtInt, "30"),
				rig.F(rig.TagUsername, "alice"), rig.F(rig.TagPassword, "secret")}})
			synctest.Wait()
		}
		n := 0
		run := func(o SharedOp, async bool) {
			n++
			i := o.Conn
			switch o.Kind {
			case "testreq":
				in(i, &rig.InMsg{Type: rig.TTestRequest, Fields: []rig.Tok{rig.F(rig.TagTestReqID, fmt.Sprintf("c%d-%d", i, n))}})
			case "bad":
				in(i, &rig.InMsg{Type: rig.THeartbeat, Damage: "checksum", DamageBy: 7})
			case "peer-logout":
				in(i, &rig.InMsg{Type: rig.TLogout})
			case "relogon":
				// what has been written so far went to the old identity
				cuts[i] = append(cuts[i], idCut{len(conns[i].Stream()), peerID[i] + "x"})
				peerID[i] += "x"
				in(i, &rig.InMsg{Type: rig.TLogon, Fields: []rig.Tok{rig.F(rig.TagEncryptMethod, "0"), rig.F(rig.TagHeartBtInt, "30"),
					rig.F(rig.TagUsername, "alice"), rig.F(rig.TagPassword, "secret")}})
			case "local-logout":
				if async {
					go func() { _ = sessions[i].Logout() }()
				} else {
					_ = sessions[i].Logout()
				}
			case "app-send":
				id := fmt.Sprintf("c%d-app%d", i, n)
				if async {
					go func() { _ = sessions[i].Send(rig.NewApp(id)) }()
				} else {
					_ = sessions[i].Send(rig.NewApp(id))
				}
			}
		}
		for _, o := range c.Before {
			run(o, false)
			synctest.Wait()
		}
		// the held operation: its first outgoing Save gets stuck inside its store
		stores[c.Held.Conn].armed.Store(true)
		run(c.Held, true)
		synctest.Wait()
		select {
		case <-stores[c.Held.Conn].entered:
			heldPending = true
		default:
		}
		for _, o := range c.Meanwhile {
			run(o, false)
			synctest.Wait()
			meanwhileRan++
		}
		stores[c.Held.Conn].armed.Store(false)
		close(stores[c.Held.Conn].release)
		synctest.Wait()
		for _, o := range c.After {
			run(o, false)
			synctest.Wait()
		}
		for i := range conns {
			streams[i] = conns[i].Stream()
			conns[i].PeerClose()
		}
		synctest.Wait()
		ar.A.Close()
		time.Sleep(rig.Settle(30))
	})
	if trouble != "" {
		return []pbt.Violation{pbt.V("harness", "%s", trouble)}
	}
	kinds := map[string]bool{}
	for i := 0; i < c.Conns; i++ {
		msgs, rest := ref.Split(streams[i], "10")
		if len(rest) != 0 {
			vs = append(vs, pbt.V("shared:torn", "connection %d: the stream ends with an incomplete message", i))
		}
		want := 1
		off := 0
		wantID := fmt.Sprintf("PEER%d", i)
		for k, m := range msgs {
			for _, ct := range cuts[i] {
				if off >= ct.off {
					wantID = ct.id
				}
			}
			off += len(m)
			o := rig.Decode(m)
			kinds[o.Type] = true
			what := fmt.Sprintf("connection %d of %d (sessions built from one session.Opts, settings shared: %v; a Save of connection %d (%s) was held back meanwhile), message %d", i, c.Conns, c.ShareSettings, c.Held.Conn, c.Held.Kind, k+1)
			if err := ref.Framed(m, ref.StdTags); err != nil {
				vs = append(vs, pbt.V("shared:framing", "%s: %v: %s", what, err, o.String()))
				break
			}
			if tgt, _ := o.Get(rig.TagTargetCompID); tgt != wantID {
				vs = append(vs, pbt.V("shared:target-comp-id", "%s carries TargetCompID %q: %s", what, tgt, o.String()))
				break
			}
			if snd, _ := o.Get(rig.TagSenderCompID); snd != "LIB" {
				vs = append(vs, pbt.V("shared:sender-comp-id", "%s carries SenderCompID %q: %s", what, snd, o.String()))
				break
			}
			if atoi(o.Seq) != want {
				vs = append(vs, pbt.V("shared:sequence", "%s carries MsgSeqNum %s, expected %d: %s", what, o.Seq, want, o.String()))
				break
			}
			want++
		}
		if len(vs) > 0 {
			break
		}
	}
	for i := range cuts {
		relogons += len(cuts[i])
	}
	if relogons > 0 {
		rec.Hist("shared-opts:relogon-under-another-compid")
	}
	nontrivial := heldPending && meanwhileRan >= 1
	rec.Case(evid.FPs(fmt.Sprint(c.Buf, c.Conns, c.ShareSettings, c.Before, c.Held, c.Meanwhile, c.After)), nontrivial)
	rec.Hist("shared-opts:engine")
	if nontrivial {
		rec.Hist("shared-opts:save-pending-while-siblings-send")
		rec.Hist("shared-opts:held:" + c.Held.Kind)
	}
	if c.ShareSettings {
		rec.Hist("shared-opts:settings-object-shared")
	}
	if rec.WantSample() && nontrivial {
		rec.Sample(map[string]any{"engine": "several sessions from one session.Opts", "connections": c.Conns, "settings_shared": c.ShareSettings, "held": c.Held, "meanwhile": c.Meanwhile})
	}
	return vs
}

func TestC05Shared(t *testing.T) {
	outerT = t
	rec := evid.New("C05/shared")
	pbt.Run(t, "C05", rec, genC05Shared, checkC05Shared)
}
