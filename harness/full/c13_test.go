package full

import (
	"errors"
	"fmt"
	"sort"
	"strings"
	"sync"
	"sync/atomic"
	"testing"
	"testing/synctest"
	"time"

	simplefixgo "github.com/b2broker/simplefix-go"
	"github.com/b2broker/simplefix-go/session"
	"github.com/b2broker/simplefix-go/storages/memory"
	"pgregory.net/rapid"

	"verif/harness/evid"
	"verif/harness/netsim"
	"verif/harness/pbt"
	"verif/harness/ref"
	"verif/harness/rig"
)

// ---------- C13: every way a connection can end leaves nothing blocked forever ----------

type C13Case struct {
	Role     string   `json:"role"`
	Buf      int      `json:"buf"`
	N        int      `json:"n"`
	Prefix   []string `json:"prefix"`  // logon, app-in, app-out, testreq-in, heartbeat-in, logout-in
	Cause    string   `json:"cause"`   // see causes
	Partial  int      `json:"partial"` // bytes of an inbound message delivered right before the cause (0: none, -1: a whole message)
	Parked   int      `json:"parked"`  // senders blocked on a stalled peer when the cause strikes
	ErrStops bool     `json:"err_stops,omitempty"`
	ParkKind string   `json:"park_kind"` // "send": an application Send; "resend": the inbound goroutine serving a ResendRequest (SendBatch)
	StopAt   int      `json:"stop_at"`   // cause handler-stop with a burst: the application stops the handler from inside its own incoming handler, on the k-th message of the burst (the rest is still buffered in the reader)
	Burst    int      `json:"burst"`     // further whole application messages that arrive in one piece right before the cause (buffered in the connection's reader when it strikes)
	DeltaNs  int64    `json:"delta_ns"`  // virtual time between the in-flight traffic and the cause
	Deadline int64    `json:"deadline_ms"`
}

var causesBoth = []string{"peer-close", "peer-reset", "read-error", "write-error", "peer-stall", "handler-stop", "bad-inbound"}

func genC13(t *rapid.T) *C13Case {
	c := &C13Case{
		Role:     rapid.SampledFrom([]string{"acceptor", "initiator"}).Draw(t, "role"),
		Buf:      rapid.SampledFrom([]int{0, 1, 10}).Draw(t, "buf"),
		N:        rapid.SampledFrom([]int{1, 5, 30}).Draw(t, "n"),
		Deadline: 600000, // expiry of a blocked write is scripted (netsim.ExpireWrites), not awaited
	}
	causes := append([]string{}, causesBoth...)
	if c.Role == "acceptor" {
		causes = append(causes, "acceptor-close")
	} else {
		causes = append(causes, "initiator-close", "first-write-fails", "context-cancel")
	}
	c.Cause = rapid.SampledFrom(causes).Draw(t, "cause")
	// the life of the session up to the injection point
	stage := rapid.IntRange(0, 4).Draw(t, "stage")
	if c.Cause == "first-write-fails" {
		stage = 0 // the very first write of the connection (the initiator's Logon) fails
	}
	switch stage {
	case 0: // before logon: nothing exchanged
	case 1: // during the handshake: only part of the Logon has arrived (see Partial)
	default:
		c.Prefix = append(c.Prefix, "logon")
		for i := rapid.IntRange(0, 5).Draw(t, "traffic"); i > 0; i-- {
			c.Prefix = append(c.Prefix, rapid.SampledFrom([]string{"app-in", "app-out", "testreq-in", "heartbeat-in"}).Draw(t, "act"))
		}
		if stage == 4 {
			c.Prefix = append(c.Prefix, "logout-in") // during logout
		}
	}
	if c.Role == "acceptor" && stage != 1 && rapid.IntRange(0, 3).Draw(t, "refusedFirst") == 0 {
		// a Logon the acceptor refuses (interval outside its limits / method it does not allow) comes first
		c.Prefix = append([]string{rapid.SampledFrom([]string{"bad-logon-interval", "bad-logon-method"}).Draw(t, "refusedKind")}, c.Prefix...)
	}
	switch rapid.IntRange(0, 3).Draw(t, "inflight") {
	case 1:
		c.Partial = rapid.IntRange(1, 60).Draw(t, "partial")
	case 2:
		c.Partial = -1
	case 3:
		c.Partial = rapid.SampledFrom([]int{-1, 5, 30}).Draw(t, "partial2")
		c.Parked = 1
	}
	if stage == 1 && c.Partial <= 0 {
		c.Partial = rapid.IntRange(1, 60).Draw(t, "partialLogon")
	}
	if rapid.IntRange(0, 3).Draw(t, "parkedOnly") == 0 {
		c.Parked = 1 // never more: a second sender would queue on the session mutex, which is not a durable wait
	}
	c.ParkKind = "send"
	if c.Parked > 0 && hasLogon(c.Prefix) && c.Prefix[len(c.Prefix)-1] != "logout-in" && rapid.IntRange(0, 2).Draw(t, "parkResend") == 0 {
		c.ParkKind = "resend"
		c.Partial = 0 // the ResendRequest is the in-flight inbound message
	} else if c.Parked > 0 && hasLogon(c.Prefix) && c.Prefix[len(c.Prefix)-1] != "logout-in" && rapid.IntRange(0, 2).Draw(t, "parkTestReq") == 0 {
		c.ParkKind = "testreq"
		c.Partial = 0 // the TestRequest is the in-flight inbound message; its answer is the send that parks
	}
	// the application has an error callback (Session.OnError) that gives up on the first error: it stops the session
	c.ErrStops = rapid.IntRange(0, 2).Draw(t, "errStops") == 0
	if c.Cause == "bad-inbound" && c.Partial > 0 {
		c.Partial = -1 // the offending message must arrive as a message of its own
	}
	if hasLogon(c.Prefix) && c.Parked == 0 && c.Partial <= 0 && rapid.IntRange(0, 3).Draw(t, "burstInFlight") == 0 {
		c.Burst = rapid.SampledFrom([]int{2, 5, 12, 50, 300}).Draw(t, "burst")
		if c.Cause == "handler-stop" {
			c.StopAt = rapid.IntRange(1, min(c.Burst, 5)).Draw(t, "stopAt")
		}
	}
	c.DeltaNs = rapid.SampledFrom([]int64{0, 0, 1, 1000, 1e6}).Draw(t, "delta")
	if hasLogon(c.Prefix) && c.Prefix[len(c.Prefix)-1] != "logout-in" && c.Cause != "first-write-fails" && rapid.IntRange(0, 7).Draw(t, "peerSilence") == 0 {
		// one more way a connection ends: the peer stays connected, reads, and says nothing; the
		// session's watchdog probes it and then ends the connection itself
		c.Cause = "peer-silence"
		c.Partial, c.Parked, c.Burst, c.StopAt, c.ParkKind = 0, 0, 0, 0, "send"
	}
	return c
}

// onErrorStops registers the application's error callback: on the first error it stops the session.
func onErrorStops(c *C13Case, s *session.Session) {
	if !c.ErrStops {
		return
	}
	var fired atomic.Bool
	s.OnError(func(error) {
		// (Stop itself may report a further error - its Logout cannot be sent - while it is still running)
		if fired.CompareAndSwap(false, true) {
			_ = s.Stop()
		}
	})
}

// stopInBurst lets the application stop its handler from inside its own incoming
// handler, on the StopAt-th message of the burst.
func stopInBurst(c *C13Case, h interface {
	HandleIncoming(string, simplefixgo.IncomingHandlerFunc) int64
}, stop func()) {
	if c.StopAt <= 0 {
		return
	}
	n := 0
	h.HandleIncoming("D", func(b []byte) bool {
		if id, _ := ref.Lookup(b, "11"); strings.HasPrefix(id, "burst") {
			n++
			if n == c.StopAt {
				stop()
			}
		}
		return true
	})
}

func hasLogon(prefix []string) bool {
	for _, a := range prefix {
		if a == "logon" {
			return true
		}
	}
	return false
}

type c13Obs struct {
	early       string // acceptor: library goroutines of the ended connection still alive before the acceptor itself is closed
	leftover    string
	stacks      string
	served      bool // Initiator.Serve returned / ListenAndServe returned after Close
	connClosed  bool
	notified    []string
	lateSend    string // "returned", "blocked"
	parkedStuck int
	logged      bool
}

func checkC13(c *C13Case, rec *evid.Rec) (vs []pbt.Violation) {
	pbt.PreRecord("C13", "TestC13", c)
	done := pbt.Watch("C13", "TestC13", c)
	defer done()
	defer pbt.ClearRecord()
	var o c13Obs
	pendingAtInjection := false
	leak, trouble := rig.Bubble(outerT, func() {
		store := memory.NewStorage()
		cfg := rig.Cfg{Role: c.Role, HBMin: 1, HBMax: 60, HBInt: c.N, Methods: []string{"0"}, Approve: "all",
			CloseTimeoutMs: 500, Buf: c.Buf, Sender: "LIB", Target: "PEER", User: "alice", Pass: "secret"}
		var mu sync.Mutex
		note := func(s string) func() bool {
			return func() bool { mu.Lock(); o.notified = append(o.notified, s); mu.Unlock(); return true }
		}
		var sess *session.Session
		var hStop func()
		var ar *rig.AcceptorRig
		var ir *rig.InitiatorRig
		var conn *netsim.Conn
		wd := time.Duration(c.Deadline) * time.Millisecond
		if c.Role == "acceptor" {
			ar = rig.StartAcceptor(c.Buf, wd, func(h simplefixgo.AcceptorHandler) {
				h.OnDisconnect(note("disconnect"))
				h.OnStopped(note("stopped"))
				s, err := rig.AcceptorSession(cfg, h, store, store)
				if err != nil {
					panic(err)
				}
				sess, hStop = s, h.Stop
				onErrorStops(c, s)
				stopInBurst(c, h, h.Stop)
			})
			conn = netsim.NewConn("c")
			ar.L.Connect(conn)
			synctest.Wait()
		} else {
			ir = rig.NewInitiatorRig(c.Buf, wd)
			conn = ir.C
			ir.H.OnDisconnect(note("disconnect"))
			ir.H.OnStopped(note("stopped"))
			if c.Cause == "first-write-fails" {
				conn.FailWriteOn(1)
			}
			ir.Serve()
			s, err := rig.InitiatorSession(cfg, ir.H, store, store)
			if err != nil {
				panic(err)
			}
			sess, hStop = s, ir.H.Stop
			onErrorStops(c, s)
			stopInBurst(c, ir.H, ir.H.Stop)
			synctest.Wait()
		}
		inSeq := 1
		next := func() string { s := fmt.Sprint(inSeq); inSeq++; return s }
		logonMsg := func() []byte {
			return (&rig.InMsg{Type: rig.TLogon, Seq: next(), Fields: []rig.Tok{rig.F(rig.TagEncryptMethod, "0"),
				rig.F(rig.TagHeartBtInt, fmt.Sprint(c.N)), rig.F(rig.TagUsername, "alice"), rig.F(rig.TagPassword, "secret")}}).Bytes()
		}
		nextInbound := logonMsg
		for i, act := range c.Prefix {
			switch act {
			case "bad-logon-interval":
				conn.Feed((&rig.InMsg{Type: rig.TLogon, Seq: next(), Fields: []rig.Tok{rig.F(rig.TagEncryptMethod, "0"),
					rig.F(rig.TagHeartBtInt, "999"), rig.F(rig.TagUsername, "alice"), rig.F(rig.TagPassword, "secret")}}).Bytes())
			case "bad-logon-method":
				conn.Feed((&rig.InMsg{Type: rig.TLogon, Seq: next(), Fields: []rig.Tok{rig.F(rig.TagEncryptMethod, "7"),
					rig.F(rig.TagHeartBtInt, fmt.Sprint(c.N)), rig.F(rig.TagUsername, "alice"), rig.F(rig.TagPassword, "secret")}}).Bytes())
			case "logon":
				conn.Feed(logonMsg())
				nextInbound = func() []byte {
					return (&rig.InMsg{Type: "D", Seq: next(), Fields: []rig.Tok{rig.F("11", "inflight")}}).Bytes()
				}
			case "app-in":
				conn.Feed((&rig.InMsg{Type: "D", Seq: next(), Fields: []rig.Tok{rig.F("11", fmt.Sprint("o", i))}}).Bytes())
			case "testreq-in":
				conn.Feed((&rig.InMsg{Type: rig.TTestRequest, Seq: next(), Fields: []rig.Tok{rig.F(rig.TagTestReqID, fmt.Sprint("t", i))}}).Bytes())
			case "heartbeat-in":
				conn.Feed((&rig.InMsg{Type: rig.THeartbeat, Seq: next()}).Bytes())
			case "logout-in":
				conn.Feed((&rig.InMsg{Type: rig.TLogout, Seq: next()}).Bytes())
			case "app-out":
				_ = sess.Send(rig.NewApp(fmt.Sprint("a", i)))
			}
			synctest.Wait()
		}
		o.logged = sess.IsLogged()
		// in-flight traffic: senders parked on a peer that stopped reading
		var parkedWG sync.WaitGroup
		parkedDone := make([]bool, c.Parked)
		if c.Parked > 0 && c.ParkKind == "testreq" {
			// the peer stops reading and sends a TestRequest: the inbound goroutine parks while
			// sending the Heartbeat; when the connection ends that send fails and is reported
			conn.Stall(true)
			conn.Feed((&rig.InMsg{Type: rig.TTestRequest, Seq: next(), Fields: []rig.Tok{rig.F(rig.TagTestReqID, "parked")}}).Bytes())
			synctest.Wait()
			parkedDone = nil
		} else if c.Parked > 0 && c.ParkKind == "resend" {
			// the peer stops reading and asks for a resend: the inbound goroutine
			// parks inside SendBatch, holding the handler mutex
			conn.Stall(true)
			conn.Feed((&rig.InMsg{Type: rig.TResendRequest, Seq: next(), Fields: []rig.Tok{rig.F(rig.TagBeginSeqNo, "1"), rig.F(rig.TagEndSeqNo, "0")}}).Bytes())
			synctest.Wait()
			parkedDone = nil
		} else if c.Parked > 0 {
			conn.Stall(true)
			for k := 0; k < c.Parked; k++ {
				k := k
				parkedWG.Add(1)
				go func() {
					defer parkedWG.Done()
					_ = sess.Send(rig.NewApp(fmt.Sprint("parked", k)))
					parkedDone[k] = true
				}()
			}
			synctest.Wait()
		}
		// A whole Logon in flight is answered (Logon or Reject): with a peer that has stopped
		// reading, that answer is the write that parks. A second, application send next to it
		// would queue on the session mutex behind it, which is not a durable wait (the bubble's
		// clock would stop): so the peer stalls before the Logon arrives and no trigger is sent.
		stallEarly := c.Cause == "peer-stall" && c.Parked == 0 && c.Partial == -1 && !hasLogon(c.Prefix)
		if stallEarly {
			conn.Stall(true)
		}
		if c.Partial != 0 {
			m := nextInbound()
			if c.Partial > 0 && c.Partial < len(m) {
				m = m[:c.Partial]
			}
			conn.Feed(m)
		}
		if c.Burst > 0 {
			var chunk []byte
			for k := 0; k < c.Burst; k++ {
				chunk = append(chunk, (&rig.InMsg{Type: "D", Seq: next(), Fields: []rig.Tok{rig.F("11", fmt.Sprint("burst", k))}}).Bytes()...)
			}
			conn.Feed(chunk)
		}
		if c.DeltaNs > 0 {
			time.Sleep(time.Duration(c.DeltaNs))
		}
		pendingAtInjection = conn.Pending() > 0 || c.Parked > 0
		// the cause
		switch c.Cause {
		case "peer-silence":
			tol := max(1, c.N/20)
			T := time.Duration(c.N+tol) * time.Second
			time.Sleep(2*T + T/5 + time.Second)
		case "peer-close":
			conn.PeerClose()
		case "peer-reset":
			conn.PeerReset()
		case "read-error":
			conn.FailRead(errors.New("netsim: injected read error"))
		case "write-error":
			conn.FailNextWrite()
			if c.Parked == 0 {
				go func() { _ = sess.Send(rig.NewApp("trigger")) }()
			}
			conn.Stall(false)
		case "peer-stall":
			conn.Stall(true)
			if c.Parked == 0 && !stallEarly {
				go func() { _ = sess.Send(rig.NewApp("trigger")) }()
				synctest.Wait()
			}
			conn.ExpireWrites() // the write deadline passes
		case "handler-stop":
			if c.StopAt == 0 {
				hStop()
			} // else: the application's own handler stops it in mid-burst
		case "acceptor-close":
			ar.A.Close()
		case "initiator-close":
			ir.I.Close()
		case "context-cancel":
			ir.Cancel() // the application cancels the context it made the handler from
		case "first-write-fails":
			// injected at set-up: the initiator's own Logon was the write that failed
		case "bad-inbound":
			conn.Feed((&rig.InMsg{Type: "D", Seq: next(), Damage: "no-msgtype"}).Bytes())
		}
		if c.Parked > 0 {
			// the blocked write's deadline passes after the cause. No wait for
			// quiescence in between: Initiator.Serve's forwarding loop spins on a
			// closed reader channel until its context is cancelled, and a spinning
			// goroutine never lets synctest.Wait return.
			conn.ExpireWrites()
		}
		// bounded settling time: close timeout + 2 T + 10 s
		settle := 500*time.Millisecond + rig.Settle(c.N)
		time.Sleep(settle)
		synctest.Wait()
		cl, _ := conn.IsClosed()
		o.connClosed = cl
		if ir != nil {
			o.served = ir.Returned()
		}
		// parked senders must have been released
		for _, d := range parkedDone {
			if !d {
				o.parkedStuck++
			}
		}
		// a later Send must return (not tried while a parked sender still holds
		// the session mutex: the second one would queue on it non-durably)
		o.lateSend = "returned"
		if o.parkedStuck == 0 {
			lateDone := make(chan struct{})
			go func() {
				defer close(lateDone)
				_ = sess.Send(rig.NewApp("late"))
			}()
			select {
			case <-lateDone:
			case <-time.After(time.Hour):
				o.lateSend = "blocked"
			}
		}
		// the application shuts the acceptor down; ListenAndServe must return. The
		// connection itself must have been closed before that: every cause ends it.
		if ar != nil {
			// before that, the ended connection's own goroutines must be gone: only the
			// acceptor's listening goroutines may still carry library frames
			for _, line := range strings.Split(rig.Stacks(), "\n") {
				if line != "" && !strings.Contains(line, "(*Acceptor).ListenAndServe") && !strings.Contains(line, "rig.StartAcceptor") {
					o.early += line + "\n"
				}
			}
			ar.A.Close()
			time.Sleep(settle)
			synctest.Wait()
			o.served = ar.Returned()
		}
		if !o.served || !o.connClosed || o.lateSend == "blocked" || o.parkedStuck > 0 {
			o.stacks = rig.Stacks()
		}
		if o.lateSend == "blocked" || o.parkedStuck > 0 {
			// release what we can so that the bubble can end; the verdict is already fixed
			hStop()
			time.Sleep(settle)
		}
		if ir != nil && !ir.Returned() {
			ir.I.Close()
			hStop()
			time.Sleep(settle)
		}
		synctest.Wait()
		// everything the harness started has been joined or has returned: any
		// goroutine with a library frame that is still here was left behind
		o.leftover = rig.Stacks()
	})
	if trouble != "" {
		return []pbt.Violation{pbt.V("harness", "%s", trouble)}
	}
	key := func(what string) string { return what + ":" + c.Role + ":" + c.Cause }
	desc := fmt.Sprintf("%s, cause %s, buf %d, N %d, prefix %v, partial %d, burst %d, parked %d (%s)", c.Role, c.Cause, c.Buf, c.N, c.Prefix, c.Partial, c.Burst, c.Parked, c.ParkKind)
	if !o.connClosed {
		vs = append(vs, pbt.V(key("socket-not-closed"), "%s: the connection was not closed within the settling time\n%s", desc, o.stacks))
	}
	if !o.served {
		vs = append(vs, pbt.V(key("serve-did-not-return"), "%s: the serving call did not return\n%s", desc, o.stacks))
	}
	peerCaused := c.Cause == "peer-close" || c.Cause == "peer-reset" || c.Cause == "read-error" || c.Cause == "write-error" || c.Cause == "peer-stall" || c.Cause == "first-write-fails"
	if peerCaused && len(o.notified) == 0 {
		vs = append(vs, pbt.V(key("no-notification"), "%s: neither OnDisconnect nor OnStopped was called on the side that did not initiate the termination", desc))
	}
	if o.lateSend != "returned" {
		vs = append(vs, pbt.V(key("late-send-blocks"), "%s: a Send issued after the termination never returns", desc))
	}
	if o.parkedStuck > 0 {
		vs = append(vs, pbt.V(key("parked-sender-stuck"), "%s: %d sender(s) that were blocked when the connection ended were never released", desc, o.parkedStuck))
	}
	if o.early != "" && len(vs) == 0 && c.Parked == 0 {
		vs = append(vs, pbt.V(key("connection-goroutines-left:"+leakSites(o.early)), "%s: the connection has ended, the acceptor is still open, and goroutines of that connection remain after the settling time:\n%s", desc, o.early))
	}
	if (leak != "" || o.leftover != "") && len(vs) == 0 {
		vs = append(vs, pbt.V(key("goroutines-left:"+leakSites(o.leftover)), "%s: library goroutines remain after the settling time:\n%s", desc, o.leftover))
	}
	rec.Case(evid.FPs(desc), pendingAtInjection)
	rec.Hist("cause:" + c.Cause)
	rec.Hist("role:" + c.Role)
	rec.Hist(fmt.Sprintf("buf=%d", c.Buf))
	if len(c.Prefix) > 0 && strings.HasPrefix(c.Prefix[0], "bad-logon") {
		rec.Hist("refused-logon-first")
	}
	if !hasLogon(c.Prefix) {
		rec.Hist("point:before-logon")
	} else if c.Prefix[len(c.Prefix)-1] == "logout-in" {
		rec.Hist("point:during-logout")
	} else {
		rec.Hist("point:logged-on")
	}
	if c.Partial > 0 {
		rec.Hist("inflight:partial-inbound-message")
	}
	if c.Burst > 0 {
		rec.Hist("inflight:burst-buffered-in-the-reader")
	}
	if c.StopAt > 0 {
		rec.Hist("handler-stopped-from-inside-its-own-handler")
	}
	if c.ErrStops {
		rec.Hist("error-callback-stops-the-session")
	}
	if c.Parked > 0 {
		rec.Hist("inflight:parked-" + c.ParkKind)
	}
	if rec.WantSample() && pendingAtInjection {
		rec.Sample(desc)
	}
	return vs
}

// leakSites extracts the library functions the leaked goroutines are parked in.
func leakSites(report string) string {
	seen := map[string]bool{}
	var out []string
	for _, line := range strings.Split(report, "\n") {
		// "goroutine N [state, bubble]: f1 < f2 < ..." (innermost library frame first)
		i := strings.Index(line, "]: ")
		if i < 0 {
			continue
		}
		fn := strings.Split(line[i+3:], " < ")[0]
		if !seen[fn] {
			seen[fn] = true
			out = append(out, fn)
		}
	}
	sort.Strings(out)
	if len(out) == 0 {
		return "(no library frame in synctest's report)"
	}
	if len(out) > 4 {
		out = out[:4]
	}
	return strings.Join(out, ",")
}

func TestC13(t *testing.T) {
	outerT = t
	rec := evid.New("C13")
	pbt.Run(t, "C13", rec, genC13, checkC13)
}

// enumC13 lists the complete cross product of the six fixed script families
// x role x buffer size x cause x in-flight traffic.
func enumC13() []*C13Case {
	families := [][]string{
		nil,       // before logon
		{"logon"}, // just logged on
		{"logon", "app-in", "app-out"},
		{"logon", "testreq-in", "app-out", "app-in", "heartbeat-in"},
		{"logon", "app-out", "logout-in"}, // during logout
		{"logon", "app-in", "app-in", "app-out", "app-out", "testreq-in"},
	}
	type fl struct {
		partial, parked int
		kind            string
	}
	inflight := []fl{{0, 0, "send"}, {7, 0, "send"}, {40, 0, "send"}, {-1, 0, "send"}, {0, 1, "send"}, {-1, 1, "send"}, {20, 1, "send"}, {0, 1, "resend"}}
	var out []*C13Case
	for _, role := range []string{"acceptor", "initiator"} {
		causes := append([]string{}, causesBoth...)
		if role == "acceptor" {
			causes = append(causes, "acceptor-close")
		} else {
			causes = append(causes, "initiator-close", "context-cancel")
		}
		for _, buf := range []int{0, 1, 10} {
			for _, fam := range families {
				for _, cause := range causes {
					for _, f := range inflight {
						c := &C13Case{Role: role, Buf: buf, N: 1, Prefix: fam, Cause: cause, Partial: f.partial, Parked: f.parked, ParkKind: f.kind, Deadline: 600000}
						if cause == "bad-inbound" && c.Partial > 0 {
							continue
						}
						if f.kind == "resend" && (len(fam) == 0 || fam[len(fam)-1] == "logout-in") {
							continue // needs a logged-on session with stored messages
						}
						out = append(out, c)
						// a local close racing with an inbound hand-off has two outcomes
						// per run (which select arm wins): try those tuples several times
						if f.partial != 0 && (cause == "acceptor-close" || cause == "initiator-close" || cause == "handler-stop") {
							for k := 0; k < 5; k++ {
								cp := *c
								out = append(out, &cp)
							}
						}
					}
				}
			}
		}
	}
	return out
}

func TestC13Enum(t *testing.T) {
	outerT = t
	rec := evid.New("C13/enum")
	pbt.Enumerate(t, "C13", rec, enumC13(), checkC13)
}

// ---- C13: a connection that completes its handshake while the acceptor is being closed ----
//
// Acceptor.Close() and a client's connect race in every deployment: the client
// gets through the listener in the window between the cancellation and the
// listener's own Close. The scripted listener makes the window certain (its
// accept hook calls Acceptor.Close right before Accept returns the connection).
// Whatever the library does with such a connection, the client must not be left
// with an open socket that nobody serves: it sees the connection closed.

type C13LateCase struct {
	Buf     int   `json:"buf"`
	Earlier int   `json:"earlier"` // connections accepted (and logged on) before
	Speaks  bool  `json:"speaks"`  // the late client sends its Logon at once
	CbNs    int64 `json:"cb_ns"`   // time the application's new-client callback takes
}

func genC13Late(t *rapid.T) *C13LateCase {
	return &C13LateCase{Buf: rapid.SampledFrom([]int{0, 1, 10}).Draw(t, "buf"), Earlier: rapid.IntRange(0, 2).Draw(t, "earlier"),
		Speaks: rapid.Bool().Draw(t, "speaks"), CbNs: rapid.SampledFrom([]int64{0, 0, 1e6, 50e6}).Draw(t, "cbNs")}
}

func checkC13Late(c *C13LateCase, rec *evid.Rec) (vs []pbt.Violation) {
	done := pbt.Watch("C13", "TestC13Late", c)
	defer done()
	var lateClosed, returned bool
	var earlierOpen int
	leak, trouble := rig.Bubble(outerT, func() {
		store := memory.NewStorage()
		cfg := rig.Cfg{Role: "acceptor", HBMin: 1, HBMax: 60, HBInt: 30, Methods: []string{"0"}, Approve: "all", CloseTimeoutMs: 100, Buf: c.Buf,
			Sender: "LIB", Target: "PEER", User: "alice", Pass: "secret"}
		ar := rig.StartAcceptor(c.Buf, time.Minute, func(h simplefixgo.AcceptorHandler) {
			if c.CbNs > 0 {
				time.Sleep(time.Duration(c.CbNs))
			}
			if _, err := rig.AcceptorSession(cfg, h, store, store); err != nil {
				panic(err)
			}
		})
		logon := func(seq int) []byte {
			return (&rig.InMsg{Type: rig.TLogon, Seq: fmt.Sprint(seq), Fields: []rig.Tok{rig.F(rig.TagEncryptMethod, "0"), rig.F(rig.TagHeartBtInt, "30"),
				rig.F(rig.TagUsername, "alice"), rig.F(rig.TagPassword, "secret")}}).Bytes()
		}
		var earlier []*netsim.Conn
		for i := 0; i < c.Earlier; i++ {
			ec := netsim.NewConn(fmt.Sprint("early", i))
			earlier = append(earlier, ec)
			ar.L.Connect(ec)
			synctest.Wait()
			ec.Feed(logon(1))
			synctest.Wait()
		}
		time.Sleep(100 * time.Millisecond)
		late := netsim.NewConn("late")
		ar.L.OnAccept = func(nc *netsim.Conn) {
			if nc == late {
				ar.A.Close() // the application shuts the acceptor down while this client's handshake completes
			}
		}
		ar.L.Connect(late)
		if c.Speaks {
			late.Feed(logon(1))
		}
		synctest.Wait()
		time.Sleep(rig.Settle(30))
		synctest.Wait()
		lateClosed, _ = late.IsClosed()
		returned = ar.Returned()
		for _, ec := range earlier {
			if cl, _ := ec.IsClosed(); !cl {
				earlierOpen++
			}
		}
		// let everything go so that the bubble can end
		late.PeerClose()
		for _, ec := range earlier {
			ec.PeerClose()
		}
		time.Sleep(rig.Settle(30))
	})
	if trouble != "" {
		return []pbt.Violation{pbt.V("harness", "%s", trouble)}
	}
	desc := fmt.Sprintf("acceptor (buffer %d) with %d earlier connections; a client's connection is accepted at the instant Acceptor.Close is called (it sends its Logon at once: %v)", c.Buf, c.Earlier, c.Speaks)
	if !returned {
		vs = append(vs, pbt.V("late:serve-not-returned", "%s: ListenAndServe has not returned", desc))
	}
	if !lateClosed {
		vs = append(vs, pbt.V("late:connection-left-open", "%s: that connection is still open after the settling time: the client waits forever on a socket nobody serves", desc))
	}
	if earlierOpen > 0 && len(vs) == 0 {
		vs = append(vs, pbt.V("late:earlier-connection-left-open", "%s: %d of the earlier connections are still open after the acceptor was closed", desc, earlierOpen))
	}
	if leak != "" && len(vs) == 0 {
		vs = append(vs, pbt.V("late:goroutines-left", "%s: goroutines remain blocked after every connection was closed by its peer:\n%s", desc, leak))
	}
	rec.Case(evid.FPs(fmt.Sprint(c.Buf, c.Earlier, c.Speaks, c.CbNs)), true)
	rec.Hist("late-accept")
	rec.Hist(fmt.Sprintf("late:earlier=%d", c.Earlier))
	if rec.WantSample() {
		rec.Sample(map[string]any{"engine": "connection accepted while the acceptor closes", "buffer": c.Buf, "earlier_connections": c.Earlier, "late_client_speaks": c.Speaks})
	}
	return vs
}

func TestC13Late(t *testing.T) {
	outerT = t
	rec := evid.New("C13/late")
	pbt.Run(t, "C13", rec, genC13Late, checkC13Late)
}

// ---- C13: a write timeout of zero (or below) ----
//
// An application that passes 0 as the write timeout gets writes that fail at
// once (the deadline is "now"): every connection ends on its first outbound
// message. That is a way for a connection to end like any other: the socket is
// closed, the serving call returns, nothing stays blocked - also when the peer
// has stopped reading.

type C13ZeroCase struct {
	Role    string `json:"role"`
	Buf     int    `json:"buf"`
	Timeout int64  `json:"timeout_ms"` // 0 or negative
	Stalled bool   `json:"stalled"`    // the peer does not read
}

func genC13Zero(t *rapid.T) *C13ZeroCase {
	return &C13ZeroCase{Role: rapid.SampledFrom([]string{"acceptor", "initiator"}).Draw(t, "role"), Buf: rapid.SampledFrom([]int{0, 1, 10}).Draw(t, "buf"),
		Timeout: rapid.SampledFrom([]int64{0, 0, -1, -1000}).Draw(t, "timeout"), Stalled: rapid.Bool().Draw(t, "stalled")}
}

func checkC13Zero(c *C13ZeroCase, rec *evid.Rec) (vs []pbt.Violation) {
	done := pbt.Watch("C13", "TestC13Zero", c)
	defer done()
	var closed, returned bool
	leak, trouble := rig.Bubble(outerT, func() {
		store := memory.NewStorage()
		cfg := rig.Cfg{Role: c.Role, HBMin: 1, HBMax: 60, HBInt: 30, Methods: []string{"0"}, Approve: "all", CloseTimeoutMs: 100, Buf: c.Buf,
			Sender: "LIB", Target: "PEER", User: "alice", Pass: "secret"}
		wd := time.Duration(c.Timeout) * time.Millisecond
		var conn *netsim.Conn
		var ar *rig.AcceptorRig
		var ir *rig.InitiatorRig
		if c.Role == "acceptor" {
			ar = rig.StartAcceptor(c.Buf, wd, func(h simplefixgo.AcceptorHandler) {
				if _, err := rig.AcceptorSession(cfg, h, store, store); err != nil {
					panic(err)
				}
			})
			conn = netsim.NewConn("c")
			conn.Stall(c.Stalled)
			ar.L.Connect(conn)
		} else {
			ir = rig.NewInitiatorRig(c.Buf, wd)
			conn = ir.C
			conn.Stall(c.Stalled)
			ir.Serve()
			// (the initiator's own Logon is the first write)
			go func() { _, _ = rig.InitiatorSession(cfg, ir.H, store, store) }()
		}
		synctest.Wait()
		conn.Feed((&rig.InMsg{Type: rig.TLogon, Seq: "1", Fields: []rig.Tok{rig.F(rig.TagEncryptMethod, "0"), rig.F(rig.TagHeartBtInt, "30"),
			rig.F(rig.TagUsername, "alice"), rig.F(rig.TagPassword, "secret")}}).Bytes())
		synctest.Wait()
		time.Sleep(rig.Settle(30))
		synctest.Wait()
		closed, _ = conn.IsClosed()
		if ir != nil {
			returned = ir.Returned()
		} else {
			returned = true // the acceptor goes on listening: only the connection ends
		}
		conn.Stall(false)
		conn.PeerClose()
		synctest.Wait()
		if ar != nil {
			ar.A.Close()
		} else {
			ir.I.Close()
			ir.H.Stop()
		}
		time.Sleep(rig.Settle(30))
	})
	if trouble != "" {
		return []pbt.Violation{pbt.V("harness", "%s", trouble)}
	}
	desc := fmt.Sprintf("%s, buffer %d, write timeout %d ms, peer reads: %v", c.Role, c.Buf, c.Timeout, !c.Stalled)
	if !closed {
		vs = append(vs, pbt.V("zero-timeout:socket-not-closed", "%s: the first outbound message cannot be written within its (zero) timeout, yet the connection is still open after the settling time", desc))
	}
	if !returned && len(vs) == 0 {
		vs = append(vs, pbt.V("zero-timeout:serve-not-returned", "%s: Initiator.Serve has not returned", desc))
	}
	if leak != "" && len(vs) == 0 {
		vs = append(vs, pbt.V("zero-timeout:goroutines-left", "%s: goroutines remain blocked at the end:\n%s", desc, leak))
	}
	rec.Case(evid.FPs(fmt.Sprint(c.Role, c.Buf, c.Timeout, c.Stalled)), true)
	rec.Hist("zero-write-timeout")
	if c.Stalled {
		rec.Hist("zero-write-timeout:peer-not-reading")
	}
	if rec.WantSample() {
		rec.Sample(map[string]any{"engine": "write timeout of zero", "role": c.Role, "buffer": c.Buf, "timeout_ms": c.Timeout, "peer_reads": !c.Stalled})
	}
	return vs
}

func TestC13Zero(t *testing.T) {
	outerT = t
	rec := evid.New("C13/zero")
	pbt.Run(t, "C13", rec, genC13Zero, checkC13Zero)
}
