package full

import (
	"fmt"
	"testing"
	"testing/synctest"
	"time"

	simplefixgo "github.com/b2broker/simplefix-go"
	"github.com/b2broker/simplefix-go/session"
	"github.com/b2broker/simplefix-go/storages/memory"
	"pgregory.net/rapid"

	"verif/harness/evid"
	"verif/harness/netsim"
	"verif/harness/pbt"
	"verif/harness/ref"
	"verif/harness/rig"
)

// ---------- C09 over the real transport: a live peer is never probed and never disconnected ----------
//
// The history-based engine drives the session without a connection. Here the
// session sits on the real Acceptor/Initiator over a scripted connection whose
// write timeout may be much shorter than the heartbeat interval, and the peer
// sends something at least every N seconds for many periods: the connection
// must stay open, no TestRequest may be sent, the session stays logged on.

type C09TransportCase struct {
	Role      string  `json:"role"`
	Buf       int     `json:"buf"`
	N         int     `json:"n"`
	WriteMs   int64   `json:"write_ms"` // the connection's write timeout
	Gaps      []int64 `json:"gaps"`     // virtual ns between the peer's messages (each at most N seconds)
	Kinds     []int   `json:"kinds"`
	LocalSend []bool  `json:"local_send"` // the application sends something right after the peer's message
}

func genC09Transport(t *rapid.T) *C09TransportCase {
	c := &C09TransportCase{Role: rapid.SampledFrom([]string{"acceptor", "initiator"}).Draw(t, "role"), Buf: rapid.SampledFrom([]int{0, 1, 10}).Draw(t, "buf"),
		N: rapid.SampledFrom([]int{2, 3, 5, 10}).Draw(t, "n")}
	c.WriteMs = rapid.SampledFrom([]int64{200, 1000, int64(c.N) * 1000, 60000}).Draw(t, "writeMs")
	N := int64(c.N) * 1e9
	for i := rapid.IntRange(4, 14).Draw(t, "msgs"); i > 0; i-- {
		c.Gaps = append(c.Gaps, rapid.Int64Range(N/10, N).Draw(t, "gap"))
		c.Kinds = append(c.Kinds, rapid.IntRange(0, 2).Draw(t, "kind"))
		c.LocalSend = append(c.LocalSend, rapid.IntRange(0, 3).Draw(t, "localSend") == 0)
	}
	return c
}

func checkC09Transport(c *C09TransportCase, rec *evid.Rec) (vs []pbt.Violation) {
	done := pbt.Watch("C09", "TestC09Transport", c)
	defer done()
	var stream []byte
	closedAt := time.Duration(-1)
	logged := false
	_, trouble := rig.Bubble(outerT, func() {
		store := memory.NewStorage()
		cfg := rig.Cfg{Role: c.Role, HBMin: 1, HBMax: 60, HBInt: c.N, Methods: []string{"0"}, Approve: "all", CloseTimeoutMs: 100, Buf: c.Buf,
			Sender: "LIB", Target: "PEER", User: "alice", Pass: "secret"}
		wd := time.Duration(c.WriteMs) * time.Millisecond
		var conn *netsim.Conn
		var sess *session.Session
		var ar *rig.AcceptorRig
		var ir *rig.InitiatorRig
		if c.Role == "acceptor" {
			ar = rig.StartAcceptor(c.Buf, wd, func(h simplefixgo.AcceptorHandler) {
				s, err := rig.AcceptorSession(cfg, h, store, store)
				if err != nil {
					panic(err)
				}
				sess = s
			})
			conn = netsim.NewConn("c")
			ar.L.Connect(conn)
		} else {
			ir = rig.NewInitiatorRig(c.Buf, wd)
			conn = ir.C
			ir.Serve()
			s, err := rig.InitiatorSession(cfg, ir.H, store, store)
			if err != nil {
				panic(err)
			}
			sess = s
		}
		synctest.Wait()
		t0 := time.Now()
		seq := 1
		conn.Feed((&rig.InMsg{Type: rig.TLogon, Seq: "1", Fields: []rig.Tok{rig.F(rig.TagEncryptMethod, "0"), rig.F(rig.TagHeartBtInt, fmt.Sprint(c.N)),
			rig.F(rig.TagUsername, "alice"), rig.F(rig.TagPassword, "secret")}}).Bytes())
		synctest.Wait()
		for i, gap := range c.Gaps {
			time.Sleep(time.Duration(gap))
			if cl, _ := conn.IsClosed(); cl && closedAt < 0 {
				closedAt = time.Since(t0)
			}
			seq++
			switch c.Kinds[i] {
			case 0:
				conn.Feed((&rig.InMsg{Type: rig.THeartbeat, Seq: fmt.Sprint(seq)}).Bytes())
			case 1:
				conn.Feed((&rig.InMsg{Type: rig.TTestRequest, Seq: fmt.Sprint(seq), Fields: []rig.Tok{rig.F(rig.TagTestReqID, fmt.Sprint("p", i))}}).Bytes())
			default:
				conn.Feed((&rig.InMsg{Type: "D", Seq: fmt.Sprint(seq), Fields: []rig.Tok{rig.F("11", fmt.Sprint("o", i))}}).Bytes())
			}
			synctest.Wait()
			if c.LocalSend[i] && sess != nil {
				_ = sess.Send(rig.NewApp(fmt.Sprint("a", i)))
				synctest.Wait()
			}
		}
		if cl, _ := conn.IsClosed(); cl && closedAt < 0 {
			closedAt = time.Since(t0)
		}
		logged = sess != nil && sess.IsLogged()
		stream = conn.Stream()
		conn.PeerClose()
		synctest.Wait()
		if ar != nil {
			ar.A.Close()
		} else {
			ir.I.Close()
			ir.H.Stop()
		}
		time.Sleep(rig.Settle(c.N))
	})
	if trouble != "" {
		return []pbt.Violation{pbt.V("harness", "%s", trouble)}
	}
	desc := fmt.Sprintf("%s, N=%ds, write timeout %dms, %d inbound messages at most N apart", c.Role, c.N, c.WriteMs, len(c.Gaps))
	if closedAt >= 0 {
		vs = append(vs, pbt.V("transport:live-peer-disconnected", "%s: the connection was closed by the library after %v although the peer never was silent for N seconds", desc, closedAt))
	}
	msgs, _ := ref.Split(stream, "10")
	for _, m := range msgs {
		if o := rig.Decode(m); o.Type == rig.TTestRequest && len(vs) == 0 {
			vs = append(vs, pbt.V("transport:live-peer-probed", "%s: a TestRequest was sent to a peer that is not silent: %s", desc, o.String()))
		}
	}
	if !logged && len(vs) == 0 {
		vs = append(vs, pbt.V("transport:live-peer-logged-out", "%s: the session is no longer logged on at the end", desc))
	}
	short := c.WriteMs < int64(c.N)*1000
	rec.Case(evid.FPs(fmt.Sprint(c.Role, c.Buf, c.N, c.WriteMs, c.Gaps, c.Kinds, c.LocalSend)), short)
	rec.Hist("transport:role:" + c.Role)
	if short {
		rec.Hist("transport:write-timeout-shorter-than-interval")
	}
	if rec.WantSample() && short {
		rec.Sample(map[string]any{"engine": "transport", "role": c.Role, "N": c.N, "write_timeout_ms": c.WriteMs, "inbound_messages": len(c.Gaps)})
	}
	return vs
}

func TestC09Transport(t *testing.T) {
	outerT = t
	rec := evid.New("C09/transport")
	pbt.Run(t, "C09", rec, genC09Transport, checkC09Transport)
}

// ---------- C09 over the real transport: a peer that is silent AND has stopped reading ----------
//
// The peer neither sends nor reads (a hung process behind an open socket). The
// first Heartbeat blocks in the connection's Write; with the outgoing buffer the
// application configured (4 or more messages here) the TestRequest and the
// Heartbeats that follow are queued, the watchdog goes on, and two periods after
// the last inbound message the library closes the connection. The write timeout
// is far longer than that, so it is the watchdog that ends the connection, not
// the failing write.

type C09StalledCase struct {
	Role string `json:"role"`
	Buf  int    `json:"buf"`
	N    int    `json:"n"`
	Warm []int  `json:"warm"` // kinds of the messages the peer sends (and reads the answers of) before it hangs
}

func genC09Stalled(t *rapid.T) *C09StalledCase {
	c := &C09StalledCase{Role: rapid.SampledFrom([]string{"acceptor", "acceptor", "initiator"}).Draw(t, "role"), Buf: rapid.SampledFrom([]int{4, 10, 100}).Draw(t, "buf"),
		N: rapid.SampledFrom([]int{2, 3, 5, 10, 30}).Draw(t, "n")}
	for i := rapid.IntRange(0, 3).Draw(t, "warm"); i > 0; i-- {
		c.Warm = append(c.Warm, rapid.IntRange(0, 1).Draw(t, "warmKind"))
	}
	return c
}

func checkC09Stalled(c *C09StalledCase, rec *evid.Rec) (vs []pbt.Violation) {
	done := pbt.Watch("C09", "TestC09Stalled", c)
	defer done()
	tol := max(1, c.N/20)
	T := time.Duration(c.N+tol) * time.Second
	slack := T/10 + time.Millisecond
	closedAt := time.Duration(-1)
	var lastIn time.Duration
	var stream []byte
	_, trouble := rig.Bubble(outerT, func() {
		store := memory.NewStorage()
		cfg := rig.Cfg{Role: c.Role, HBMin: 1, HBMax: 60, HBInt: c.N, Methods: []string{"0"}, Approve: "all", CloseTimeoutMs: 100, Buf: c.Buf,
			Sender: "LIB", Target: "PEER", User: "alice", Pass: "secret"}
		wd := 20 * T
		var conn *netsim.Conn
		var ar *rig.AcceptorRig
		var ir *rig.InitiatorRig
		if c.Role == "acceptor" {
			ar = rig.StartAcceptor(c.Buf, wd, func(h simplefixgo.AcceptorHandler) {
				if _, err := rig.AcceptorSession(cfg, h, store, store); err != nil {
					panic(err)
				}
			})
			conn = netsim.NewConn("c")
			ar.L.Connect(conn)
		} else {
			ir = rig.NewInitiatorRig(c.Buf, wd)
			conn = ir.C
			ir.Serve()
			if _, err := rig.InitiatorSession(cfg, ir.H, store, store); err != nil {
				panic(err)
			}
		}
		synctest.Wait()
		t0 := time.Now()
		seq := 1
		conn.Feed((&rig.InMsg{Type: rig.TLogon, Seq: "1", Fields: []rig.Tok{rig.F(rig.TagEncryptMethod, "0"), rig.F(rig.TagHeartBtInt, fmt.Sprint(c.N)),
			rig.F(rig.TagUsername, "alice"), rig.F(rig.TagPassword, "secret")}}).Bytes())
		synctest.Wait()
		for i, k := range c.Warm {
			time.Sleep(time.Duration(c.N) * time.Second / 2)
			seq++
			if k == 0 {
				conn.Feed((&rig.InMsg{Type: rig.THeartbeat, Seq: fmt.Sprint(seq)}).Bytes())
			} else {
				conn.Feed((&rig.InMsg{Type: rig.TTestRequest, Seq: fmt.Sprint(seq), Fields: []rig.Tok{rig.F(rig.TagTestReqID, fmt.Sprint("w", i))}}).Bytes())
			}
			synctest.Wait()
		}
		lastIn = time.Since(t0)
		conn.Stall(true) // from now on the peer neither sends nor reads
		for step := 0; step < 400 && closedAt < 0; step++ {
			time.Sleep(T / 100)
			synctest.Wait()
			if cl, at := conn.IsClosed(); cl {
				closedAt = at.Sub(t0)
			}
			if time.Since(t0) > lastIn+3*T {
				break
			}
		}
		stream = conn.Stream()
		conn.Stall(false)
		conn.PeerClose()
		synctest.Wait()
		if ar != nil {
			ar.A.Close()
		} else {
			ir.I.Close()
			ir.H.Stop()
		}
		time.Sleep(rig.Settle(c.N))
	})
	if trouble != "" {
		return []pbt.Violation{pbt.V("harness", "%s", trouble)}
	}
	desc := fmt.Sprintf("%s, N=%ds (T=%v), outgoing buffer %d, the peer stops reading and sending %v after the connection was opened", c.Role, c.N, T, c.Buf, lastIn)
	lo, hi := lastIn+2*T, lastIn+2*T+2*slack
	switch {
	case closedAt < 0:
		vs = append(vs, pbt.V("stalled:not-disconnected", "%s: the connection is still open %v later; it must be closed two periods after the last inbound message, i.e. in [%v,%v]", desc, 3*T, lo, hi))
	case closedAt < lo || closedAt > hi:
		vs = append(vs, pbt.V("stalled:disconnect-time", "%s: the connection was closed at %v, required in [%v,%v]", desc, closedAt, lo, hi))
	}
	_ = stream
	rec.Case(evid.FPs(fmt.Sprint(c.Role, c.Buf, c.N, c.Warm)), true)
	rec.Hist("stalled:role:" + c.Role)
	rec.Hist(fmt.Sprintf("stalled:buf=%d", c.Buf))
	if rec.WantSample() {
		rec.Sample(map[string]any{"engine": "silent peer that does not read", "role": c.Role, "N": c.N, "buffer": c.Buf, "closed_at": closedAt.String(), "required": fmt.Sprintf("[%v,%v]", lo, hi)})
	}
	return vs
}

func TestC09Stalled(t *testing.T) {
	outerT = t
	rec := evid.New("C09/stalled")
	pbt.Run(t, "C09", rec, genC09Stalled, checkC09Stalled)
}
