package full

import (
	"fmt"
	"testing"
	"testing/synctest"
	"time"

	simplefixgo "github.com/b2broker/simplefix-go"
	"github.com/b2broker/simplefix-go/session"
	"github.com/b2broker/simplefix-go/storages/memory"
	"pgregory.net/rapid"

	"verif/harness/evid"
	"verif/harness/netsim"
	"verif/harness/pbt"
	"verif/harness/ref"
	"verif/harness/rig"
)

// ---------- C09 over the real transport: a live peer is never probed and never disconnected ----------
//
// The history-based engine drives the session without a connection. Here the
// session sits on the real Acceptor/Initiator over a scripted connection whose
// write timeout may be much shorter than the heartbeat interval, and the peer
// sends something at least every N seconds for many periods: the connection
// must stay open, no TestRequest may be sent, the session stays logged on.

type C09TransportCase struct {
	Role      string  `json:"role"`
	Buf       int     `json:"buf"`
	N         int     `json:"n"`
	WriteMs   int64   `json:"write_ms"` // the connection's write timeout
	Gaps      []int64 `json:"gaps"`     // virtual ns between the peer's messages (each at most N seconds)
	Kinds     []int   `json:"kinds"`
	LocalSend []bool  `json:"local_send"` // the application sends something right after the peer's message
}

func genC09Transport(t *rapid.T) *C09TransportCase {
	c := &C09TransportCase{Role: rapid.SampledFrom([]string{"acceptor", "initiator"}).Draw(t, "role"), Buf: rapid.SampledFrom([]int{0, 1, 10}).Draw(t, "buf"),
		N: rapid.SampledFrom([]int{2, 3, 5, 10}).Draw(t, "n")}
	c.WriteMs = rapid.SampledFrom([]int64{200, 1000, int64(c.N) * 1000, 60000}).Draw(t, "writeMs")
	N := int64(c.N) * 1e9
	for i := rapid.IntRange(4, 14).Draw(t, "msgs"); i > 0; i-- {
		c.Gaps = append(c.Gaps, rapid.Int64Range(N/10, N).Draw(t, "gap"))
		c.Kinds = append(c.Kinds, rapid.IntRange(0, 2).Draw(t, "kind"))
		c.LocalSend = append(c.LocalSend, rapid.IntRange(0, 3).Draw(t, "localSend") == 0)
	}
	return c
}

func checkC09Transport(c *C09TransportCase, rec *evid.Rec) (vs []pbt.Violation) {
	done := pbt.Watch("C09", "TestC09Transport", c)
	defer done()
	var stream []byte
	closedAt := time.Duration(-1)
	logged := false
	_, trouble := rig.Bubble(outerT, func() {
		store := memory.NewStorage()
		cfg := rig.Cfg{Role: c.Role, HBMin: 1, HBMax: 60, HBInt: c.N, Methods: []string{"0"}, Approve: "all", CloseTimeoutMs: 100, Buf: c.Buf,
			Sender: "LIB", Target: "PEER", User: "alice", Pass: "secret"}
		wd := time.Duration(c.WriteMs) * time.Millisecond
		var conn *netsim.Conn
		var sess *session.Session
		var ar *rig.AcceptorRig
		var ir *rig.InitiatorRig
		if c.Role == "acceptor" {
			ar = rig.StartAcceptor(c.Buf, wd, func(h simplefixgo.AcceptorHandler) {
				s, err := rig.AcceptorSession(cfg, h, store, store)
				if err != nil {
					panic(err)
				}
				sess = s
			})
			conn = netsim.NewConn("c")
			ar.L.Connect(conn)
		} else {
			ir = rig.NewInitiatorRig(c.Buf, wd)
			conn = ir.C
			ir.Serve()
			s, err := rig.InitiatorSession(cfg, ir.H, store, store)
			if err != nil {
				panic(err)
			}
			sess = s
		}
		synctest.Wait()
		t0 := time.Now()
		seq := 1
		conn.Feed((&rig.InMsg{Type: rig.TLogon, Seq: "1", Fields: []rig.Tok{rig.F(rig.TagEncryptMethod, "0"), rig.F(rig.TagHeartBtInt, fmt.Sprint(c.N)),
			rig.F(rig.TagUsername, "alice"), rig.F(rig.TagPassword, "secret")}}).Bytes())
		synctest.Wait()
		for i, gap := range c.Gaps {
			time.Sleep(time.Duration(gap))
			if cl, _ := conn.IsClosed(); cl && closedAt < 0 {
				closedAt = time.Since(t0)
			}
			seq++
			switch c.Kinds[i] {
			case 0:
				conn.Feed((&rig.InMsg{Type: rig.THeartbeat, Seq: fmt.Sprint(seq)}).Bytes())
			case 1:
				conn.Feed((&rig.InMsg{Type: rig.TTestRequest, Seq: fmt.Sprint(seq), Fields: []rig.Tok{rig.F(rig.TagTestReqID, fmt.Sprint("p", i))}}).Bytes())
			default:
				conn.Feed((&rig.InMsg{Type: "D", Seq: fmt.Sprint(seq), Fields: []rig.Tok{rig.F("11", fmt.Sprint("o", i))}}).Bytes())
			}
			synctest.Wait()
			if c.LocalSend[i] && sess != nil {
				_ = sess.Send(rig.NewApp(fmt.Sprint("a", i)))
				synctest.Wait()
			}
		}
		if cl, _ := conn.IsClosed(); cl && closedAt < 0 {
			closedAt = time.Since(t0)
		}
		logged = sess != nil && sess.IsLogged()
		stream = conn.Stream()
		conn.PeerClose()
		synctest.Wait()
		if ar != nil {
			ar.A.Close()
		} else {
			ir.I.Close()
			ir.H.Stop()
		}
		time.Sleep(rig.Settle(c.N))
	})
	if trouble != "" {
		return []pbt.Violation{pbt.V("harness", "%s", trouble)}
	}
	desc := fmt.Sprintf("%s, N=%ds, write timeout %dms, %d inbound messages at most N apart", c.Role, c.N, c.WriteMs, len(c.Gaps))
	if closedAt >= 0 {
		vs = append(vs, pbt.V("transport:live-peer-disconnected", "%s: the connection was closed by the library after %v although the peer never was silent for N seconds", desc, closedAt))
	}
	msgs, _ := ref.Split(stream, "10")
	for _, m := range msgs {
		if o := rig.Decode(m); o.Type == rig.TTestRequest && len(vs) == 0 {
			vs = append(vs, pbt.V("transport:live-peer-probed", "%s: a TestRequest was sent to a peer that is not silent: %s", desc, o.String()))
		}
	}
	if !logged && len(vs) == 0 {
		vs = append(vs, pbt.V("transport:live-peer-logged-out", "%s: the session is no longer logged on at the end", desc))
	}
	short := c.WriteMs < int64(c.N)*1000
	rec.Case(evid.FPs(fmt.Sprint(c.Role, c.Buf, c.N, c.WriteMs, c.Gaps, c.Kinds, c.LocalSend)), short)
	rec.Hist("transport:role:" + c.Role)
	if short {
		rec.Hist("transport:write-timeout-shorter-than-interval")
	}
	if rec.WantSample() && short {
		rec.Sample(map[string]any{"engine": "transport", "role": c.Role, "N": c.N, "write_timeout_ms": c.WriteMs, "inbound_messages": len(c.Gaps)})
	}
	return vs
}

func TestC09Transport(t *testing.T) {
	outerT = t
	rec := evid.New("C09/transport")
	pbt.Run(t, "C09", rec, genC09Transport, checkC09Transport)
}
