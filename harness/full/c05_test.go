package full

import (
	"fmt"
	fixgen "github.com/b2broker/simplefix-go/tests/fix44"
	"regexp"
	"runtime"
	"sort"
	"sync"
	"testing"
	"testing/synctest"
	"time"

	simplefixgo "github.com/b2broker/simplefix-go"
	"github.com/b2broker/simplefix-go/fix"
	"github.com/b2broker/simplefix-go/session"
	"github.com/b2broker/simplefix-go/storages/memory"
	"pgregory.net/rapid"

	"verif/harness/evid"
	"verif/harness/netsim"
	"verif/harness/pbt"
	"verif/harness/ref"
	"verif/harness/rig"
)

// ---------- C05: outbound sequence numbers 1,2,3,... on the wire ----------

type PeerOp struct {
	At   int64  `json:"at"` // virtual ns after logon
	Kind string `json:"kind"`
}

type C05Session struct {
	Shared        bool      `json:"shared"`  // all senders hand the SAME message object to Send (as the repository's own tests do)
	Senders       [][]int64 `json:"senders"` // per sender goroutine: delay (ns) before each of its sends
	Peer          []PeerOp  `json:"peer"`
	ResetIncoming bool      `json:"reset_incoming,omitempty"` // before this (second or later) session the application resets the INCOMING side of the shared counter store; the outgoing numbering continues
	// SilentEnd: when the scripted activity is over the peer says nothing more (it keeps reading); the
	// session probes it and then ends the connection itself. Nothing is in flight at that point, so the
	// stored counter must be the last number that went out.
	SilentEnd bool `json:"silent_end,omitempty"`
	// Forwarded: every other application message was received on another session and parsed (it carries that
	// session's number, identifiers and time) before it is sent on through this one
	Forwarded      bool  `json:"forwarded,omitempty"`
	RestoreCounter bool  `json:"restore_counter,omitempty"` // before this (second or later) session the application writes its persisted outgoing position back into the store
	GapAfter       int64 `json:"gap_after"`                 // virtual ns between the end of this connection and the next session (-1: the full settling time)
}

type C05Case struct {
	BadLogonFirst bool         `json:"bad_logon_first"` // acceptor: a Logon with a disallowed EncryptMethod precedes the good one
	Cfg           rig.Cfg      `json:"cfg"`
	N             int          `json:"n"`
	StoreDelays   []int64      `json:"store_delays"`
	HandlerDelays []int64      `json:"handler_delays"`
	WriteDelay    int64        `json:"write_delay"`
	StampHeader   bool         `json:"stamp_header,omitempty"` // the application\'s outgoing handler sets LastMsgSeqNumProcessed (369) in the header of every message
	Sessions      []C05Session `json:"sessions"`
}

// numbers of scheduler yields injected inside store calls and outgoing handlers
var delayChoices = []int64{0, 0, 0, 1, 3, 10, 50, 200, 1000}

func genC05(t *rapid.T) *C05Case {
	c := &C05Case{}
	role := rapid.SampledFrom([]string{"acceptor", "initiator"}).Draw(t, "role")
	c.N = rapid.SampledFrom([]int{1, 2, 3, 5, 30}).Draw(t, "n")
	c.Cfg = rig.Cfg{Role: role, HBMin: 1, HBMax: 60, HBInt: c.N, Methods: []string{"0"}, Approve: "all",
		CloseTimeoutMs: 100, Buf: rapid.SampledFrom([]int{0, 1, 10}).Draw(t, "buf"),
		Sender: "LIB", Target: "PEER", User: "alice", Pass: "secret"}
	// the session option Location: the zone in which SendingTime is written
	c.Cfg.Location = rapid.SampledFrom([]string{"", "", "UTC", "America/New_York", "Asia/Kolkata", "Pacific/Chatham"}).Draw(t, "location")
	for i := rapid.IntRange(1, 6).Draw(t, "nStoreDelays"); i > 0; i-- {
		c.StoreDelays = append(c.StoreDelays, rapid.SampledFrom(delayChoices).Draw(t, "storeDelay"))
	}
	for i := rapid.IntRange(1, 4).Draw(t, "nHandlerDelays"); i > 0; i-- {
		c.HandlerDelays = append(c.HandlerDelays, rapid.SampledFrom(delayChoices).Draw(t, "handlerDelay"))
	}
	c.BadLogonFirst = role == "acceptor" && rapid.IntRange(0, 3).Draw(t, "badLogonFirst") == 0
	c.StampHeader = rapid.IntRange(0, 3).Draw(t, "stampHeader") == 0
	c.WriteDelay = 0 // a virtual sleep inside Write would stop the clock while senders queue on the session mutex
	ns := rapid.SampledFrom([]int{1, 1, 1, 2, 3}).Draw(t, "nSessions")
	for s := 0; s < ns; s++ {
		var ss C05Session
		g := rapid.IntRange(1, 8).Draw(t, "senders")
		for i := 0; i < g; i++ {
			m := rapid.IntRange(1, 12).Draw(t, "perSender")
			var ds []int64
			for j := 0; j < m; j++ {
				ds = append(ds, rapid.SampledFrom([]int64{0, 0, 1, 1000, 1e6, 50e6, 700e6, int64(c.N) * 1e9, int64(c.N) * 25e8}).Draw(t, "sendDelay"))
			}
			ss.Senders = append(ss.Senders, ds)
		}
		np := rapid.IntRange(0, 8).Draw(t, "peerOps")
		for i := 0; i < np; i++ {
			ss.Peer = append(ss.Peer, PeerOp{At: rapid.Int64Range(0, int64(c.N)*3e9).Draw(t, "peerAt"),
				Kind: rapid.SampledFrom([]string{"testreq", "testreq", "heartbeat", "invalid", "invalid-seq", "no-seq", "app", "resend", "resend-open"}).Draw(t, "peerKind")})
		}
		sort.SliceStable(ss.Peer, func(i, j int) bool { return ss.Peer[i].At < ss.Peer[j].At })
		ss.GapAfter = rapid.SampledFrom([]int64{-1, 0, 1e6, int64(c.N) * 5e8}).Draw(t, "gapAfter")
		ss.Shared = rapid.IntRange(0, 5).Draw(t, "shared") == 0
		ss.ResetIncoming = s > 0 && rapid.IntRange(0, 2).Draw(t, "resetIncoming") == 0
		// (for N = 1 and N = 2 a timer Heartbeat falls on the instant of the disconnect: in flight by definition)
		ss.SilentEnd = c.N >= 3 && rapid.IntRange(0, 3).Draw(t, "silentEnd") == 0
		ss.Forwarded = !ss.Shared && rapid.IntRange(0, 3).Draw(t, "forwarded") == 0
		ss.RestoreCounter = s > 0 && rapid.IntRange(0, 2).Draw(t, "restoreCounter") == 0
		c.Sessions = append(c.Sessions, ss)
	}
	return c
}

var sendingTimeRe = regexp.MustCompile(`^\d{8}-\d{2}:\d{2}:\d{2}\.\d{3}$`)

type sendRec struct {
	g          int
	seq        int
	start, end time.Time
}

func checkC05(c *C05Case, rec *evid.Rec) (vs []pbt.Violation) {
	done := pbt.Watch("C05", "TestC05", c)
	defer done()
	inner := memory.NewStorage()
	type sessObs struct {
		writes    []netsim.Write
		sends     []sendRec
		logonAt   time.Time
		counter   int
		startAt   int // the store's outgoing counter when this session started
		sendErr   []string
		selfEnded bool
		starts    []time.Time // instant at which each Send call began
	}
	var obs []sessObs
	restoreBroken := ""
	overlap := false
	leak, trouble := rig.Bubble(outerT, func() {
		store := rig.NewStore(inner)
		store.Yield = func(op string, n int) int { return int(c.StoreDelays[n%len(c.StoreDelays)]) }
		var hcalls int
		var hmu sync.Mutex
		slowHandler := func(msg simplefixgo.SendingMessage) bool {
			hmu.Lock()
			hcalls++
			d := c.HandlerDelays[hcalls%len(c.HandlerDelays)]
			hmu.Unlock()
			for ; d > 0; d-- {
				runtime.Gosched()
			}
			if c.StampHeader {
				// the application stamps an optional header field (LastMsgSeqNumProcessed) on every message that leaves
				if hb, ok := msg.HeaderBuilder().(*fixgen.Header); ok {
					hb.SetLastMsgSeqNumProcessed(4242)
				}
			}
			return true
		}
		var ar *rig.AcceptorRig
		var cur *session.Session
		if c.Cfg.Role == "acceptor" {
			ar = rig.StartAcceptor(c.Cfg.Buf, 30*time.Second, func(h simplefixgo.AcceptorHandler) {
				s, err := rig.AcceptorSession(c.Cfg, h, store, store)
				if err != nil {
					panic(err)
				}
				h.HandleOutgoing(simplefixgo.AllMsgTypes, slowHandler)
				cur = s
			})
		}
		for si := range c.Sessions {
			ss := &c.Sessions[si]
			var o sessObs
			o.startAt, _ = inner.GetCurrSeqNum(fix.StorageID{Side: fix.Outgoing})
			if ss.RestoreCounter && si > 0 {
				// the application writes the position it had persisted back into the store (the same number
				// here): the outgoing numbering continues from exactly that number
				_ = inner.SetSeqNum(fix.StorageID{Side: fix.Outgoing}, o.startAt)
				if got, _ := inner.GetCurrSeqNum(fix.StorageID{Side: fix.Outgoing}); got != o.startAt {
					restoreBroken = fmt.Sprintf("session %d: the application set the outgoing counter of the reused store to %d, the store now reports %d", si, o.startAt, got)
				}
			}
			if ss.ResetIncoming && si > 0 {
				_ = inner.ResetSeqNum(fix.StorageID{Side: fix.Incoming})
			}
			var conn *netsim.Conn
			var ir *rig.InitiatorRig
			inSeq := 1
			next := func() string { s := fmt.Sprint(inSeq); inSeq++; return s }
			if ar != nil {
				conn = netsim.NewConn(fmt.Sprint(si))
				conn.SetWriteDelay(time.Duration(c.WriteDelay))
				ar.L.Connect(conn)
				synctest.Wait()
			} else {
				ir = rig.NewInitiatorRig(c.Cfg.Buf, 30*time.Second)
				conn = ir.C
				conn.SetWriteDelay(time.Duration(c.WriteDelay))
				// Serve first: with an unbuffered handler Session.Run blocks on its
				// Logon until the connection loop takes it
				ir.Serve()
				s, err := rig.InitiatorSession(c.Cfg, ir.H, store, store)
				if err != nil {
					panic(err)
				}
				ir.H.HandleOutgoing(simplefixgo.AllMsgTypes, slowHandler)
				cur = s
			}
			if c.BadLogonFirst && si == 0 {
				conn.Feed((&rig.InMsg{Type: rig.TLogon, Seq: next(), Fields: []rig.Tok{rig.F(rig.TagEncryptMethod, "7"),
					rig.F(rig.TagHeartBtInt, fmt.Sprint(c.N))}}).Bytes())
				synctest.Wait()
			}
			logon := &rig.InMsg{Type: rig.TLogon, Seq: next(), Fields: []rig.Tok{rig.F(rig.TagEncryptMethod, "0"),
				rig.F(rig.TagHeartBtInt, fmt.Sprint(c.N)), rig.F(rig.TagUsername, "alice"), rig.F(rig.TagPassword, "secret")}}
			conn.Feed(logon.Bytes())
			synctest.Wait()
			// wait (virtual) until the session reports logged on: store delays may postpone it
			for i := 0; i < 100 && !cur.IsLogged(); i++ {
				time.Sleep(100 * time.Millisecond)
			}
			o.logonAt = time.Now()
			sess := cur
			var wg sync.WaitGroup
			var mu sync.Mutex
			sharedMsg := rig.NewApp(fmt.Sprintf("s%d-shared", si))
			t0 := time.Now()
			for gi := range ss.Senders {
				gi := gi
				wg.Add(1)
				go func() {
					defer wg.Done()
					for j, d := range ss.Senders[gi] {
						if d > 0 {
							time.Sleep(time.Duration(d))
						}
						msg := rig.NewApp(fmt.Sprintf("s%d-g%d-%d", si, gi, j))
						if ss.Forwarded && (gi+j)%2 == 0 {
							msg = rig.NewForwardedApp(fmt.Sprintf("s%d-g%d-%d", si, gi, j), gi*20+j)
						}
						if ss.Shared {
							msg = sharedMsg
						}
						start := time.Now()
						err := sess.Send(msg)
						end := time.Now()
						mu.Lock()
						o.starts = append(o.starts, start)
						if err != nil {
							o.sendErr = append(o.sendErr, err.Error())
						} else if !ss.Shared { // a shared object's number is overwritten by the next sender
							o.sends = append(o.sends, sendRec{gi, msg.HeaderBuilder().MsgSeqNum(), start, end})
						}
						mu.Unlock()
					}
				}()
			}
			// the peer: scripted inbound traffic plus a keep-alive every 0.7 N
			lastFeed := time.Now() // instant of the peer's last message (written by the peer goroutine, read after it has ended)
			stopPeer := make(chan struct{})
			peerDone := make(chan struct{})
			go func() {
				defer close(peerDone)
				k := 0
				tick := time.NewTicker(time.Duration(c.N) * 700 * time.Millisecond)
				defer tick.Stop()
				var timer <-chan time.Time
				arm := func() {
					if k < len(ss.Peer) {
						timer = time.After(time.Until(t0.Add(time.Duration(ss.Peer[k].At))))
					} else {
						timer = nil
					}
				}
				arm()
				for {
					select {
					case <-stopPeer:
						return
					case <-tick.C:
						conn.Feed((&rig.InMsg{Type: rig.THeartbeat, Seq: next()}).Bytes())
						lastFeed = time.Now()
					case <-timer:
						var m *rig.InMsg
						switch ss.Peer[k].Kind {
						case "testreq":
							m = &rig.InMsg{Type: rig.TTestRequest, Seq: next(), Fields: []rig.Tok{rig.F(rig.TagTestReqID, fmt.Sprint("p", k))}}
						case "heartbeat":
							m = &rig.InMsg{Type: rig.THeartbeat, Seq: next()}
						case "resend":
							m = &rig.InMsg{Type: rig.TResendRequest, Seq: next(), Fields: []rig.Tok{rig.F(rig.TagBeginSeqNo, "1"), rig.F(rig.TagEndSeqNo, "2")}}
						case "resend-open":
							m = &rig.InMsg{Type: rig.TResendRequest, Seq: next(), Fields: []rig.Tok{rig.F(rig.TagBeginSeqNo, "1"), rig.F(rig.TagEndSeqNo, "0")}}
						case "invalid":
							m = &rig.InMsg{Type: rig.THeartbeat, Seq: next(), Damage: "checksum", DamageBy: k}
						case "invalid-seq":
							// well framed, its MsgSeqNum is not a number: the Reject it gets is a numbered message like any other
							m = &rig.InMsg{Type: rig.THeartbeat, Seq: []string{"7x", "abc", "1.0", " 4"}[k%4]}
						case "no-seq":
							m = &rig.InMsg{Type: rig.TTestRequest, NoSeq: true, Fields: []rig.Tok{rig.F(rig.TagTestReqID, fmt.Sprint("p", k))}}
						default:
							m = &rig.InMsg{Type: "D", Seq: next(), Fields: []rig.Tok{rig.F("11", "x")}}
						}
						conn.Feed(m.Bytes())
						lastFeed = time.Now()
						k++
						arm()
					}
				}
			}()
			wg.Wait()
			// let scheduled peer traffic finish, then quiesce
			if n := len(ss.Peer); n > 0 {
				if rest := time.Until(t0.Add(time.Duration(ss.Peer[n-1].At))); rest > 0 {
					time.Sleep(rest + time.Millisecond)
				}
			}
			close(stopPeer)
			<-peerDone
			time.Sleep(3 * time.Second) // store/handler/write delays of messages in flight
			synctest.Wait()
			if ss.SilentEnd {
				// The session disconnects 2T .. 2T+T/5 after the peer's last message. Its heartbeat timer is
				// checked every N/10 only, so a timer Heartbeat could fall on that very instant (and take a number
				// without reaching the wire, which is in order). To rule that out the application sends one more
				// message N/2 before the earliest possible disconnect: the next timer Heartbeat is then not due
				// before 2T+N/2-N/10, which is later than 2T+T/5 for every N >= 3.
				tol := max(1, c.N/20)
				T := time.Duration(c.N+tol) * time.Second
				N := time.Duration(c.N) * time.Second
				if d := time.Until(lastFeed.Add(2*T - N/2)); d > 0 {
					time.Sleep(d)
				}
				st := time.Now()
				if err := sess.Send(rig.NewApp(fmt.Sprintf("s%d-before-the-disconnect", si))); err == nil {
					o.starts = append(o.starts, st)
				}
				if d := time.Until(lastFeed.Add(2*T + T/5 + 2*time.Second)); d > 0 {
					time.Sleep(d)
				}
				synctest.Wait()
				o.selfEnded, _ = conn.IsClosed()
			}
			o.counter, _ = inner.GetCurrSeqNum(fix.StorageID{Side: fix.Outgoing})
			o.writes = conn.Captured()
			// overlapping send intervals?
			for a := range o.sends {
				for b := a + 1; b < len(o.sends); b++ {
					// two goroutines inside Send in the same virtual instant run truly concurrently
					if o.sends[a].g != o.sends[b].g && !o.sends[a].start.After(o.sends[b].end) && !o.sends[b].start.After(o.sends[a].end) {
						overlap = true
					}
				}
			}
			obs = append(obs, o)
			// end this connection (how endings behave is C13's business: here the
			// local side stops its handler first, which cancels everything below it)
			if ir != nil {
				ir.H.Stop()
				synctest.Wait()
			}
			conn.PeerClose()
			synctest.Wait()
			if ir != nil && !ir.Returned() {
				ir.I.Close()
				synctest.Wait()
			}
			// the next session may start while goroutines of this one are still
			// winding down: nothing of the old session may take a number any more
			if ss.GapAfter < 0 || si == len(c.Sessions)-1 {
				time.Sleep(rig.Settle(c.N))
			} else if ss.GapAfter > 0 {
				time.Sleep(time.Duration(ss.GapAfter))
			}
		}
		if ar != nil {
			ar.A.Close()
			time.Sleep(time.Second)
		}
	})
	if trouble != "" {
		return []pbt.Violation{pbt.V("harness", "%s", trouble)}
	}
	if restoreBroken != "" {
		return []pbt.Violation{pbt.V("counter-restore", "%s: a later session does not continue from the stored counter", restoreBroken)}
	}
	if leak != "" {
		rec.Hist("bubble-ended-with-blocked-goroutines")
	}
	expected := 1
	total, timerDriven, retransmitted := 0, 0, 0
	wantSender, wantTarget := "LIB", "PEER"
	for si, o := range obs {
		// numbers continue from the stored counter (a message numbered while the
		// previous connection was going down consumed its number without being sent)
		expected = o.startAt + 1
		if len(o.sendErr) > 0 {
			return []pbt.Violation{pbt.V("harness:send-error", "a Send failed in a history without refusals or store failures: %v", o.sendErr)}
		}
		var stream []byte
		var at []time.Time
		for _, w := range o.writes {
			stream = append(stream, w.Bytes...)
		}
		msgs, rest := ref.Split(stream, "10")
		if len(rest) != 0 {
			vs = append(vs, pbt.V("torn-stream", "session %d: outbound stream ends inside a message", si))
		}
		// capture instant of each message = instant of the write that completed it
		{
			off := 0
			wi, wend := 0, 0
			for _, m := range msgs {
				off += len(m)
				for wi < len(o.writes) && wend < off {
					wend += len(o.writes[wi].Bytes)
					wi++
				}
				at = append(at, o.writes[wi-1].At)
			}
		}
		calls := map[int]sendRec{}
		for _, s := range o.sends {
			calls[s.seq] = s
		}
		var seqs []int
		resendAsked := false
		for _, op := range c.Sessions[si].Peer {
			if op.Kind == "resend" || op.Kind == "resend-open" {
				resendAsked = true
			}
		}
		starts := append([]time.Time(nil), o.starts...)
		sort.Slice(starts, func(i, j int) bool { return starts[i].Before(starts[j]) })
		appIdx := 0
		var prevTm time.Time
		for k, m := range msgs {
			total++
			if err := ref.Framed(m, ref.StdTags); err != nil {
				vs = append(vs, pbt.V("framing:"+ref.Class(err), "session %d: %v: %s", si, err, ref.Show(m)))
				break
			}
			out := rig.Decode(m)
			n := atoi(out.Seq)
			seqs = append(seqs, n)
			if n < expected && n >= 1 && resendAsked {
				retransmitted++
				continue // a retransmission requested by the peer (judged by C10)
			}
			if n != expected {
				kind := "gap"
				if n < expected {
					kind = "duplicate-or-reordered"
				}
				vs = append(vs, pbt.V("sequence:"+kind, "session %d: message %d on the wire carries MsgSeqNum %d, expected %d (numbers so far %v)", si, k, n, expected, seqs))
				break
			}
			expected++
			if s, _ := out.Get(rig.TagSenderCompID); s != wantSender {
				vs = append(vs, pbt.V("sender-comp-id", "message #%d carries SenderCompID %q, want %q", n, s, wantSender))
			}
			if s, _ := out.Get(rig.TagTargetCompID); s != wantTarget {
				vs = append(vs, pbt.V("target-comp-id", "message #%d carries TargetCompID %q, want %q", n, s, wantTarget))
			}
			st, _ := out.Get(rig.TagSendingTime)
			if !sendingTimeRe.MatchString(st) {
				vs = append(vs, pbt.V("sending-time-format", "message #%d carries SendingTime %q", n, st))
				continue
			}
			loc := time.UTC
			if c.Cfg.Location != "" {
				if l, lerr := time.LoadLocation(c.Cfg.Location); lerr == nil {
					loc = l
				}
			}
			tm, err := time.ParseInLocation("20060102-15:04:05.000", st, loc)
			if err != nil {
				vs = append(vs, pbt.V("sending-time-format", "message #%d: SendingTime %q is not an instant: %v", n, st, err))
				continue
			}
			lo := time.Date(2000, 1, 1, 0, 0, 0, 0, time.UTC)
			if call, ok := calls[n]; ok {
				lo = call.start
			} else if out.Type != rig.TMDReject {
				timerDriven++
			}
			if out.Type == rig.TMDReject {
				// the i-th application message to be numbered was stamped when at least i Send calls had begun
				// (this bound also holds when every sender hands over the same message object)
				if appIdx < len(starts) && starts[appIdx].After(lo) {
					lo = starts[appIdx]
				}
				appIdx++
			}
			if tm.Before(prevTm) && len(vs) == 0 {
				vs = append(vs, pbt.V("sending-time-goes-back", "message #%d carries SendingTime %s, the message numbered before it %s: the time is not taken when the message is sent", n, st, prevTm.In(loc).Format("20060102-15:04:05.000")))
			}
			prevTm = tm
			if tm.Before(lo.Truncate(time.Millisecond)) || tm.After(at[k]) {
				vs = append(vs, pbt.V("sending-time-not-at-send", "message #%d: SendingTime %s is outside [%s, %s] (start of the send call / capture instant)", n, st, lo.UTC().Format("15:04:05.000"), at[k].UTC().Format("15:04:05.000")))
			}
		}
		if len(vs) == 0 && expected-1 != o.counter {
			vs = append(vs, pbt.V("counter-mismatch", "session %d: the store's outgoing counter is %d but the last number on the wire is %d", si, o.counter, expected-1))
		}
		if len(vs) > 0 {
			break
		}
	}
	nontrivial := overlap || timerDriven > 0
	rec.Case(evid.FPs(fmt.Sprint(c.Cfg.Role, c.N, c.Cfg.Buf, c.StoreDelays, c.HandlerDelays, c.Sessions)), nontrivial)
	rec.Hist("role:" + c.Cfg.Role)
	if c.Cfg.Location != "" && c.Cfg.Location != "UTC" {
		rec.Hist("location-not-utc")
	}
	for _, ss := range c.Sessions {
		if ss.ResetIncoming {
			rec.Hist("incoming-side-reset-between-sessions")
			break
		}
	}
	rec.Hist(fmt.Sprintf("sessions=%d", len(c.Sessions)))
	if c.StampHeader {
		rec.Hist("application-stamps-an-optional-header-field")
	}
	for _, ss := range c.Sessions {
		if ss.RestoreCounter {
			rec.Hist("persisted-position-written-back-before-a-session")
			break
		}
	}
	if c.BadLogonFirst {
		rec.Hist("reject-before-logon-on-the-wire")
	}
	rec.Hist(fmt.Sprintf("buf=%d", c.Cfg.Buf))
	if overlap {
		rec.Hist("overlapping-send-calls")
	}
	if timerDriven > 0 {
		rec.Hist("session-generated-messages-interleaved")
	}
	if retransmitted > 0 {
		rec.Hist("with-retransmissions")
	}
	for i, ss := range c.Sessions {
		if ss.SilentEnd && i < len(obs) && obs[i].selfEnded {
			rec.Hist("session-ended-by-its-own-watchdog")
		}
		if ss.Forwarded {
			rec.Hist("forwarded-parsed-messages")
		}
		if ss.Shared {
			rec.Hist("shared-message-object")
		}
		if i+1 < len(c.Sessions) && ss.GapAfter >= 0 {
			rec.Hist("next-session-starts-early")
		}
	}
	rec.Extra("wire_messages", int64(total))
	if rec.WantSample() && nontrivial {
		rec.Sample(map[string]any{"role": c.Cfg.Role, "N": c.N, "buf": c.Cfg.Buf, "senders": len(c.Sessions[0].Senders), "store_yields": c.StoreDelays, "handler_yields": c.HandlerDelays, "sessions": len(c.Sessions), "wire_messages": total})
	}
	if len(vs) > 3 {
		vs = vs[:3]
	}
	return vs
}

func atoi(s string) int {
	n := 0
	for _, c := range s {
		if c < '0' || c > '9' {
			return -1
		}
		n = n*10 + int(c-'0')
	}
	return n
}

func TestC05(t *testing.T) {
	outerT = t
	rec := evid.New("C05")
	pbt.Run(t, "C05", rec, genC05, checkC05)
}
