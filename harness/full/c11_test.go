package full

import (
	"fmt"
	"testing"
	"testing/synctest"
	"time"

	simplefixgo "github.com/b2broker/simplefix-go"
	"github.com/b2broker/simplefix-go/storages/memory"
	"pgregory.net/rapid"

	"verif/harness/evid"
	"verif/harness/netsim"
	"verif/harness/pbt"
	"verif/harness/ref"
	"verif/harness/rig"
)

// ---------- C11 (transport + session inbound path): no bytes a peer can send crash the process ----------
//
// Here a panic would happen on a library goroutine (the connection reader or
// handler.Run inside Acceptor.serve) and kill the process, so the case is
// written down before it runs (pbt.PreRecord) and the driver turns a dead
// worker plus that file into the violation.

type C11TransportCase struct {
	Chunks  [][]byte `json:"chunks"`
	Session bool     `json:"session"`        // a session is attached (otherwise the bare handler)
	Logon   bool     `json:"logon"`          // a valid Logon precedes the hostile bytes
	Role    string   `json:"role,omitempty"` // "" / "acceptor": the bytes reach an Acceptor; "initiator": an Initiator
}

func genHostileChunk(t *rapid.T) []byte {
	switch kind := rapid.IntRange(0, 9).Draw(t, "chunkKind"); kind {
	case 8, 9:
		// several complete messages in one piece: more than the handler's queue holds;
		// kind 9: right behind a frame without MsgType, in the same piece
		var b []byte
		if kind == 9 {
			b = (&rig.InMsg{Type: "", Seq: "9", Damage: "no-msgtype"}).Bytes()
		}
		for i := rapid.IntRange(2, 6).Draw(t, "burstN"); i > 0; i-- {
			b = append(b, (&rig.InMsg{Type: rapid.SampledFrom([]string{"0", "1", "D"}).Draw(t, "burstType"), Seq: fmt.Sprint(10 + i), Fields: []rig.Tok{rig.F("112", "b")}}).Bytes()...)
		}
		return b
	case 0:
		return []byte(rapid.StringMatching(`\x01{1,4}`).Draw(t, "sohs"))
	case 1:
		return []byte(rapid.StringMatching(`[a-z0-9=]{0,2}\x01`).Draw(t, "tinyField"))
	case 2:
		return []byte(rapid.StringMatching(`(8=FIX\.4\.4\x01)?(9=[0-9]{0,3}\x01)?([0-9a-z]{0,3}=?[A-Z0-9]{0,3}\x01{1,2}){0,6}(10=[0-9]{0,3}\x01)?`).Draw(t, "semi"))
	case 3:
		n := rapid.IntRange(1, 300).Draw(t, "n")
		return rapid.SliceOfN(rapid.Byte(), n, n).Draw(t, "bytes")
	case 4:
		return []byte("10=\x01")
	case 5:
		return []byte(rapid.SampledFrom([]string{"1\x01", "=\x01", "10\x01", "1\x010=\x01", "\x0110=000\x01", "35=\x0110=1\x01", "8=\x019=\x0110=\x01"}).Draw(t, "const"))
	case 6:
		m := &rig.InMsg{Type: rapid.SampledFrom([]string{"0", "1", "2", "A", "5", "D", ""}).Draw(t, "type"), Seq: "2",
			Fields: []rig.Tok{rig.F(rapid.SampledFrom([]string{"112", "7", "16", "108", "43", "141"}).Draw(t, "ftag"), rapid.SampledFrom([]string{"", "x", "0", "Y"}).Draw(t, "fval"))}}
		if m.Type == "" {
			m.Damage = "no-msgtype"
		}
		return m.Bytes()
	default:
		b := (&rig.InMsg{Type: "0", Seq: "3"}).Bytes()
		cut := rapid.IntRange(0, len(b)).Draw(t, "cut")
		return b[:cut]
	}
}

func genC11Transport(t *rapid.T) *C11TransportCase {
	c := &C11TransportCase{Session: rapid.Bool().Draw(t, "session"), Logon: rapid.Bool().Draw(t, "logon"),
		Role: rapid.SampledFrom([]string{"acceptor", "acceptor", "initiator"}).Draw(t, "role")}
	for i := rapid.IntRange(1, 10).Draw(t, "nChunks"); i > 0; i-- {
		c.Chunks = append(c.Chunks, genHostileChunk(t))
	}
	return c
}

func checkC11Transport(c *C11TransportCase, rec *evid.Rec) (vs []pbt.Violation) {
	pbt.PreRecord("C11", "TestC11Transport", c)
	done := pbt.Watch("C11", "TestC11Transport", c)
	defer done()
	defer pbt.ClearRecord()
	delivered := 0
	served := true
	left := ""
	_, trouble := rig.Bubble(outerT, func() {
		store := memory.NewStorage()
		cfg := rig.Cfg{Role: "acceptor", HBMin: 1, HBMax: 60, HBInt: 30, Methods: []string{"0"}, Approve: "all", CloseTimeoutMs: 100, Buf: 1,
			Sender: "LIB", Target: "PEER", User: "alice", Pass: "secret"}
		var conn *netsim.Conn
		var ar *rig.AcceptorRig
		var ir *rig.InitiatorRig
		if c.Role == "initiator" {
			cfg.Role = "initiator"
			ir = rig.NewInitiatorRig(1, time.Minute)
			conn = ir.C
			ir.H.HandleIncoming(simplefixgo.AllMsgTypes, func([]byte) bool { delivered++; return true })
			ir.Serve()
			if c.Session {
				if _, err := rig.InitiatorSession(cfg, ir.H, store, store); err != nil {
					panic(err)
				}
			}
		} else {
			ar = rig.StartAcceptor(1, time.Minute, func(h simplefixgo.AcceptorHandler) {
				h.HandleIncoming(simplefixgo.AllMsgTypes, func([]byte) bool { delivered++; return true })
				if c.Session {
					if _, err := rig.AcceptorSession(cfg, h, store, store); err != nil {
						panic(err)
					}
				}
			})
			conn = netsim.NewConn("c")
			ar.L.Connect(conn)
		}
		synctest.Wait()
		if c.Logon {
			conn.Feed((&rig.InMsg{Type: rig.TLogon, Seq: "1", Fields: []rig.Tok{rig.F(rig.TagEncryptMethod, "0"), rig.F(rig.TagHeartBtInt, "30")}}).Bytes())
			synctest.Wait()
		}
		for _, ch := range c.Chunks {
			conn.Feed(ch)
			synctest.Wait()
		}
		conn.PeerClose()
		synctest.Wait()
		if ar != nil {
			ar.A.Close()
			time.Sleep(rig.Settle(30))
			synctest.Wait()
			served = ar.Returned()
			left = rig.Stacks() // everything is closed: no goroutine of the library may remain
		} else {
			// the peer has closed: the initiator's serving call must come back by itself
			time.Sleep(rig.Settle(30))
			synctest.Wait()
			served = ir.Returned()
			if !served {
				ir.I.Close()
				ir.H.Stop()
				time.Sleep(rig.Settle(30))
			}
		}
	})
	if trouble != "" {
		return []pbt.Violation{pbt.V("harness", "%s", trouble)}
	}
	total := 0
	for _, ch := range c.Chunks {
		total += len(ch)
	}
	rec.Case(evid.FPs(fmt.Sprint(c.Session, c.Logon, c.Chunks)), total >= 3)
	if c.Session {
		rec.Hist("transport:with-session")
	} else {
		rec.Hist("transport:bare-handler")
	}
	if delivered > 0 {
		rec.Hist("transport:message-reached-handler")
	}
	rec.Hist("transport:role:" + map[bool]string{true: "initiator", false: "acceptor"}[c.Role == "initiator"])
	if left != "" && served {
		var s []string
		for _, ch := range c.Chunks {
			s = append(s, ref.Show(ch))
		}
		return []pbt.Violation{pbt.V("transport:inbound-path-stuck:goroutines-left", "after these bytes, the peer's close and the acceptor's Close, goroutines of the inbound path remain:\n%s\nbytes: %v", left, s)}
	}
	if !served {
		var s []string
		for _, ch := range c.Chunks {
			s = append(s, ref.Show(ch))
		}
		return []pbt.Violation{pbt.V("transport:inbound-path-stuck:"+c.Role, "after these bytes and the peer's close the serving call of the %s never returned: %v", c.Role, s)}
	}
	if rec.WantSample() && len(c.Chunks) >= 3 {
		var s []string
		for _, ch := range c.Chunks {
			s = append(s, ref.Show(ch))
		}
		rec.Sample(map[string]any{"chunks": s, "session": c.Session, "logon_first": c.Logon})
	}
	return nil
}

func TestC11Transport(t *testing.T) {
	outerT = t
	rec := evid.New("C11/transport")
	pbt.Run(t, "C11", rec, genC11Transport, checkC11Transport)
}
