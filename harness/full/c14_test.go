package full

import (
	"fmt"
	"strings"
	"sync/atomic"
	"testing"
	"testing/synctest"
	"time"

	simplefixgo "github.com/b2broker/simplefix-go"
	"github.com/b2broker/simplefix-go/fix"
	"github.com/b2broker/simplefix-go/storages/memory"
	"pgregory.net/rapid"

	"verif/harness/evid"
	"verif/harness/netsim"
	"verif/harness/pbt"
	"verif/harness/ref"
	"verif/harness/rig"
)

// ---------- C14 over the real transport: TestReqIDs of any length reach the session and come back ----------

type C14TransportCase struct {
	Role string   `json:"role"`
	Buf  int      `json:"buf"`
	IDs  []string `json:"ids"`
	Cut  int      `json:"cut"` // the stream is fed in chunks of this many bytes (0: one chunk per message)
	// WriteMs: the connection's write timeout; PauseMs[k]: the peer waits this long before request k, so that
	// the connection grows older than the write timeout while it is in use (each write has its own deadline)
	BackToBack bool    `json:"back_to_back,omitempty"`
	WriteMs    int64   `json:"write_ms,omitempty"`
	PauseMs    []int64 `json:"pause_ms,omitempty"`
	// SetupNs (acceptor): the application's new-client callback takes this long before it creates the
	// session; the peer does not wait and sends its Logon right after connecting
	SetupNs int64 `json:"setup_ns,omitempty"`
	// Bad[k] != "": a Heartbeat that fails the integrity check ("checksum", "checksum-spelling", "bodylength")
	// precedes request k on the stream; it gets its Reject and the request behind it its answer
	Bad   []string `json:"bad,omitempty"`
	BadBy []int    `json:"bad_by,omitempty"`
}

func genC14Transport(t *rapid.T) *C14TransportCase {
	c := &C14TransportCase{
		Role: rapid.SampledFrom([]string{"acceptor", "initiator"}).Draw(t, "role"),
		Buf:  rapid.SampledFrom([]int{0, 1, 10}).Draw(t, "buf"),
		Cut:  rapid.SampledFrom([]int{0, 0, 1, 7, 1000, 4096, 5000}).Draw(t, "cut"),
	}
	if c.Role == "acceptor" {
		c.SetupNs = rapid.SampledFrom([]int64{0, 0, 1e6, 300e6}).Draw(t, "setupNs")
	}
	for i := rapid.IntRange(1, 6).Draw(t, "nIDs"); i > 0; i-- {
		var n int
		switch rapid.IntRange(0, 4).Draw(t, "lenKind") {
		case 0:
			n = rapid.IntRange(1, 40).Draw(t, "short")
		case 1:
			n = rapid.IntRange(4060, 4120).Draw(t, "around4096") // around the reader's buffer size
		case 2:
			n = rapid.IntRange(8150, 8230).Draw(t, "around8192")
		case 3:
			n = rapid.IntRange(100, 20000).Draw(t, "any")
		default:
			n = rapid.SampledFrom([]int{4089, 4090, 4091, 4092, 4093, 4094, 4095, 4096, 4097}).Draw(t, "edge")
		}
		unit := rapid.SampledFrom([]string{"x", "10=", "ab=", "9", " "}).Draw(t, "unit")
		id := strings.Repeat(unit, n/len(unit)+1)[:n]
		c.IDs = append(c.IDs, id)
		bad := ""
		if rapid.IntRange(0, 3).Draw(t, "badBefore") == 0 {
			bad = rapid.SampledFrom([]string{"checksum", "checksum-spelling", "checksum-spelling", "bodylength"}).Draw(t, "badKind")
		}
		c.Bad = append(c.Bad, bad)
		c.BadBy = append(c.BadBy, rapid.IntRange(0, 300).Draw(t, "badBy"))
		c.PauseMs = append(c.PauseMs, rapid.SampledFrom([]int64{0, 0, 300, 800, 2500}).Draw(t, "pauseMs"))
	}
	c.WriteMs = rapid.SampledFrom([]int64{60000, 60000, 500, 1000}).Draw(t, "writeMs")
	// the peer sends all its requests back to back, without waiting for the answers
	c.BackToBack = rapid.IntRange(0, 2).Draw(t, "backToBack") == 0
	return c
}

func checkC14Transport(c *C14TransportCase, rec *evid.Rec) (vs []pbt.Violation) {
	done := pbt.Watch("C14", "TestC14Transport", c)
	defer done()
	var stream []byte
	_, trouble := rig.Bubble(outerT, func() {
		store := memory.NewStorage()
		cfg := rig.Cfg{Role: c.Role, HBMin: 1, HBMax: 60, HBInt: 30, Methods: []string{"0"}, Approve: "all", CloseTimeoutMs: 100, Buf: c.Buf,
			Sender: "LIB", Target: "PEER", User: "alice", Pass: "secret"}
		var conn interface {
			Feed([]byte)
			Stream() []byte
			PeerClose()
		}
		var ar *rig.AcceptorRig
		var ir *rig.InitiatorRig
		early := false // the Logon is on its way before the new-client callback has returned
		if c.Role == "acceptor" {
			ar = rig.StartAcceptor(c.Buf, time.Duration(c.WriteMs)*time.Millisecond, func(h simplefixgo.AcceptorHandler) {
				if c.SetupNs > 0 {
					time.Sleep(time.Duration(c.SetupNs))
				}
				if _, err := rig.AcceptorSession(cfg, h, store, store); err != nil {
					panic(err)
				}
			})
			nc := netsim.NewConn("c")
			ar.L.Connect(nc)
			conn = nc
			early = c.SetupNs > 0
		} else {
			ir = rig.NewInitiatorRig(c.Buf, time.Duration(c.WriteMs)*time.Millisecond)
			ir.Serve()
			if _, err := rig.InitiatorSession(cfg, ir.H, store, store); err != nil {
				panic(err)
			}
			conn = ir.C
		}
		if !early {
			synctest.Wait()
		}
		feed := func(b []byte) {
			if c.Cut <= 0 {
				conn.Feed(b)
				return
			}
			for i := 0; i < len(b); i += c.Cut {
				conn.Feed(b[i:min(len(b), i+c.Cut)])
			}
		}
		seq := 1
		feed((&rig.InMsg{Type: rig.TLogon, Seq: fmt.Sprint(seq), Fields: []rig.Tok{rig.F(rig.TagEncryptMethod, "0"), rig.F(rig.TagHeartBtInt, "30"),
			rig.F(rig.TagUsername, "alice"), rig.F(rig.TagPassword, "secret")}}).Bytes())
		synctest.Wait()
		if early {
			time.Sleep(time.Duration(c.SetupNs) + 10*time.Millisecond) // the callback returns, the Logon is served
			synctest.Wait()
		}
		for k, id := range c.IDs {
			if k < len(c.PauseMs) && c.PauseMs[k] > 0 && !c.BackToBack {
				time.Sleep(time.Duration(c.PauseMs[k]) * time.Millisecond)
			}
			if k < len(c.Bad) && c.Bad[k] != "" {
				seq++
				feed((&rig.InMsg{Type: rig.THeartbeat, Seq: fmt.Sprint(seq), Damage: c.Bad[k], DamageBy: c.BadBy[k]}).Bytes())
				synctest.Wait()
			}
			seq++
			feed((&rig.InMsg{Type: rig.TTestRequest, Seq: fmt.Sprint(seq), Fields: []rig.Tok{rig.F(rig.TagTestReqID, id)}}).Bytes())
			if !c.BackToBack {
				synctest.Wait()
			}
		}
		synctest.Wait()
		stream = conn.Stream()
		if ir != nil {
			ir.H.Stop()
		}
		conn.PeerClose()
		synctest.Wait()
		if ar != nil {
			ar.A.Close()
		}
		time.Sleep(rig.Settle(30))
	})
	if trouble != "" {
		return []pbt.Violation{pbt.V("harness", "%s", trouble)}
	}
	msgs, _ := ref.Split(stream, "10")
	var echoed []string
	rejects, bads := 0, 0
	for _, b := range c.Bad {
		if b != "" {
			bads++
		}
	}
	for _, m := range msgs {
		o := rig.Decode(m)
		if o.Type == rig.TReject {
			rejects++
		}
		if o.Type == rig.THeartbeat {
			if id, ok := o.Get(rig.TagTestReqID); ok {
				echoed = append(echoed, id)
			}
		}
	}
	for k, id := range c.IDs {
		if k >= len(echoed) {
			vs = append(vs, pbt.V("transport:no-answer", "%s, buf %d, chunk %d: the TestRequest #%d with a TestReqID of %d bytes got no Heartbeat (%d answers for %d requests)", c.Role, c.Buf, c.Cut, k, len(id), len(echoed), len(c.IDs)))
			break
		}
		if echoed[k] != id {
			vs = append(vs, pbt.V("transport:echo-differs", "%s: TestReqID of %d bytes came back as %d bytes", c.Role, len(id), len(echoed[k])))
			break
		}
	}
	if rejects != bads && len(vs) == 0 {
		vs = append(vs, pbt.V("transport:reject-count", "%s, buf %d, chunk %d: %d Heartbeats that fail the integrity check (%v) were on the stream, %d Reject messages came back", c.Role, c.Buf, c.Cut, bads, c.Bad, rejects))
	}
	if bads > 0 {
		rec.Hist("transport:damaged-message-ahead-of-a-request")
	}
	if c.SetupNs > 0 {
		rec.Hist("transport:logon-sent-while-the-new-client-callback-runs")
	}
	if c.BackToBack {
		rec.Hist("transport:requests-back-to-back")
	}
	var paused int64
	for _, p := range c.PauseMs {
		if !c.BackToBack {
			paused += p
		}
	}
	if paused > c.WriteMs {
		rec.Hist("transport:connection-older-than-the-write-timeout")
	}
	long := false
	for _, id := range c.IDs {
		if len(id) > 4000 {
			long = true
		}
	}
	var lens []int
	for _, id := range c.IDs {
		lens = append(lens, len(id))
	}
	rec.Case(evid.FPs(fmt.Sprint(c.Role, c.Buf, c.Cut, lens)), long)
	rec.Hist("transport:role:" + c.Role)
	if long {
		rec.Hist("transport:id-longer-than-reader-buffer")
	}
	if rec.WantSample() && long {
		rec.Sample(map[string]any{"role": c.Role, "buf": c.Buf, "chunk": c.Cut, "testreqid_lengths": lens})
	}
	return vs
}

func TestC14Transport(t *testing.T) {
	outerT = t
	rec := evid.New("C14/transport")
	pbt.Run(t, "C14", rec, genC14Transport, checkC14Transport)
}

// ---------- C14 with several connections served from one session.Opts ----------
//
// An acceptor application builds its session.Opts once and creates the session
// of every connection from it, so the message builders inside are shared by all
// sessions. Each peer must get back its own TestReqID whatever the other
// sessions answer meanwhile. The schedule is owned by the harness: the message
// store of one connection holds back the Save of that connection's answer until
// the other connections' requests have been answered (a store with latency),
// then lets it go.

type C14SharedCase struct {
	Buf    int        `json:"buf"`
	Conns  int        `json:"conns"`            // 2-3 connections
	Held   int        `json:"held"`             // the connection whose answer is held back inside its store
	Leaver bool       `json:"leaver,omitempty"` // one more client logs on and hangs up before the requests are sent: the others are served as before
	IDs    [][]string `json:"ids"`              // per connection: TestReqIDs sent while the held answer is pending (the held connection's first ID is the pending one)
}

func genC14Shared(t *rapid.T) *C14SharedCase {
	c := &C14SharedCase{Buf: rapid.SampledFrom([]int{0, 1, 10}).Draw(t, "buf"), Conns: rapid.IntRange(2, 3).Draw(t, "conns")}
	c.Held = rapid.IntRange(0, c.Conns-1).Draw(t, "held")
	for i := 0; i < c.Conns; i++ {
		var ids []string
		n := rapid.IntRange(0, 3).Draw(t, "nIDs")
		if i == c.Held {
			n = 1
		}
		for k := 0; k < n; k++ {
			ids = append(ids, fmt.Sprintf("c%d-%s", i, rapid.StringMatching(`[A-Za-z0-9]{1,12}`).Draw(t, "id")))
		}
		c.IDs = append(c.IDs, ids)
	}
	c.Leaver = rapid.IntRange(0, 2).Draw(t, "leaver") == 0
	return c
}

// heldStore holds the first Save of a Heartbeat that answers a TestRequest until released.
type heldStore struct {
	*memory.Storage
	hold    bool
	release chan struct{}
	entered chan struct{}
}

func (s *heldStore) Save(id fix.StorageID, msg simplefixgo.SendingMessage, seq int) error {
	if s.hold && msg.MsgType() == rig.THeartbeat {
		s.hold = false
		close(s.entered)
		<-s.release
	}
	return s.Storage.Save(id, msg, seq)
}

func checkC14Shared(c *C14SharedCase, rec *evid.Rec) (vs []pbt.Violation) {
	done := pbt.Watch("C14", "TestC14Shared", c)
	defer done()
	streams := make([][]byte, c.Conns)
	heldPending := false
	_, trouble := rig.Bubble(outerT, func() {
		cfg := rig.Cfg{Role: "acceptor", HBMin: 1, HBMax: 60, HBInt: 30, Methods: []string{"0"}, Approve: "all", CloseTimeoutMs: 100, Buf: c.Buf,
			Sender: "LIB", Target: "PEER", User: "alice", Pass: "secret"}
		opts := rig.OptsFor(cfg) // ONE options object for every session
		stores := make([]*heldStore, c.Conns+1)
		var next atomic.Int32
		ar := rig.StartAcceptor(c.Buf, time.Minute, func(h simplefixgo.AcceptorHandler) {
			i := int(next.Add(1)) - 1
			stores[i] = &heldStore{Storage: memory.NewStorage(), release: make(chan struct{}), entered: make(chan struct{})}
			if _, err := rig.AcceptorSessionOpts(opts, cfg, h, stores[i], stores[i]); err != nil {
				panic(err)
			}
		})
		conns := make([]*netsim.Conn, c.Conns)
		seqs := make([]int, c.Conns)
		for i := range conns {
			conns[i] = netsim.NewConn(fmt.Sprint(i))
			ar.L.Connect(conns[i])
			synctest.Wait() // accepted in this order
			seqs[i] = 1
			conns[i].Feed((&rig.InMsg{Type: rig.TLogon, Seq: "1", Sender: fmt.Sprintf("PEER%d", i), Target: "LIB", Fields: []rig.Tok{rig.F(rig.TagEncryptMethod, "0"), rig.F(rig.TagHeartBtInt, "30"),
				rig.F(rig.TagUsername, "alice"), rig.F(rig.TagPassword, "secret")}}).Bytes())
			synctest.Wait()
		}
		if c.Leaver {
			lv := netsim.NewConn("leaver")
			ar.L.Connect(lv)
			synctest.Wait()
			lv.Feed((&rig.InMsg{Type: rig.TLogon, Seq: "1", Sender: "LEAVER", Target: "LIB", Fields: []rig.Tok{rig.F(rig.TagEncryptMethod, "0"), rig.F(rig.TagHeartBtInt, "30"),
				rig.F(rig.TagUsername, "alice"), rig.F(rig.TagPassword, "secret")}}).Bytes())
			synctest.Wait()
			lv.PeerClose() // this client goes away; nothing changes for the others
			synctest.Wait()
			time.Sleep(50 * time.Millisecond)
			synctest.Wait()
		}
		testReq := func(i int, id string) {
			seqs[i]++
			conns[i].Feed((&rig.InMsg{Type: rig.TTestRequest, Seq: fmt.Sprint(seqs[i]), Sender: fmt.Sprintf("PEER%d", i), Target: "LIB", Fields: []rig.Tok{rig.F(rig.TagTestReqID, id)}}).Bytes())
		}
		// the held connection's request: its answer gets stuck inside its store
		stores[c.Held].hold = true
		testReq(c.Held, c.IDs[c.Held][0])
		synctest.Wait()
		select {
		case <-stores[c.Held].entered:
			heldPending = true
		default:
		}
		// meanwhile the other connections are served
		for i := range conns {
			if i == c.Held {
				continue
			}
			for _, id := range c.IDs[i] {
				testReq(i, id)
				synctest.Wait()
			}
		}
		close(stores[c.Held].release)
		synctest.Wait()
		for i := range conns {
			streams[i] = conns[i].Stream()
			conns[i].PeerClose()
		}
		synctest.Wait()
		ar.A.Close()
		time.Sleep(rig.Settle(30))
	})
	if trouble != "" {
		return []pbt.Violation{pbt.V("harness", "%s", trouble)}
	}
	others := 0
	for i := 0; i < c.Conns; i++ {
		msgs, _ := ref.Split(streams[i], "10")
		var echoed []string
		for _, m := range msgs {
			o := rig.Decode(m)
			if o.Type == rig.THeartbeat {
				if id, ok := o.Get(rig.TagTestReqID); ok {
					echoed = append(echoed, id)
				}
				if tgt, _ := o.Get(rig.TagTargetCompID); tgt != fmt.Sprintf("PEER%d", i) {
					vs = append(vs, pbt.V("shared:foreign-heartbeat", "connection %d received a Heartbeat addressed to %q: %s", i, tgt, o.String()))
				}
			}
		}
		if i != c.Held {
			others += len(c.IDs[i])
		}
		if fmt.Sprint(echoed) != fmt.Sprint(c.IDs[i]) && len(vs) == 0 {
			vs = append(vs, pbt.V("shared:echo-differs", "connection %d of %d (sessions built from one session.Opts; the answer of connection %d was held back in its store meanwhile): TestReqIDs sent %v, Heartbeats came back with %v", i, c.Conns, c.Held, c.IDs[i], echoed))
		}
	}
	nontrivial := heldPending && others >= 1
	rec.Case(evid.FPs(fmt.Sprint(c.Buf, c.Conns, c.Held, c.IDs)), nontrivial)
	rec.Hist("shared-opts:engine")
	if c.Leaver {
		rec.Hist("shared-opts:another-client-left-before")
	}
	if nontrivial {
		rec.Hist("shared-opts:answer-pending-while-another-session-answers")
	}
	if rec.WantSample() && nontrivial {
		rec.Sample(map[string]any{"engine": "several sessions from one session.Opts", "connections": c.Conns, "held": c.Held, "ids": c.IDs})
	}
	return vs
}

func TestC14Shared(t *testing.T) {
	outerT = t
	rec := evid.New("C14/shared")
	pbt.Run(t, "C14", rec, genC14Shared, checkC14Shared)
}
