// Package build turns a generated template/population into library objects
// (generic fix.Message or a tests/fix44 type) and compares a library message
// with the model leaf by leaf.
package build

import (
	"bytes"
	"fmt"
	"math"
	"time"

	"github.com/b2broker/simplefix-go/fix"
	fixgen "github.com/b2broker/simplefix-go/tests/fix44"

	"verif/harness/gen"
)

// Fix44Ctors builds an empty message of each tests/fix44 type through its
// generated constructor.
var Fix44Ctors = map[string]func() *fix.Message{
	"Heartbeat":                     func() *fix.Message { return fixgen.NewHeartbeat().Message },
	"TestRequest":                   func() *fix.Message { return fixgen.NewTestRequest().Message },
	"ResendRequest":                 func() *fix.Message { return fixgen.NewResendRequest().Message },
	"Reject":                        func() *fix.Message { return fixgen.NewReject().Message },
	"SequenceReset":                 func() *fix.Message { return fixgen.NewSequenceReset().Message },
	"Logout":                        func() *fix.Message { return fixgen.NewLogout().Message },
	"Logon":                         func() *fix.Message { return fixgen.NewLogon().Message },
	"MarketDataRequest":             func() *fix.Message { return fixgen.NewMarketDataRequest().Message },
	"MarketDataSnapshotFullRefresh": func() *fix.Message { return fixgen.NewMarketDataSnapshotFullRefresh().Message },
	"MarketDataIncrementalRefresh":  func() *fix.Message { return fixgen.NewMarketDataIncrementalRefresh().Message },
	"MarketDataRequestReject":       func() *fix.Message { return fixgen.NewMarketDataRequestReject().Message },
}

// NewValue returns an empty value of the type.
func NewValue(t gen.VT) fix.Value {
	switch t {
	case gen.TString:
		return &fix.String{}
	case gen.TInt:
		return &fix.Int{}
	case gen.TUint:
		return &fix.Uint{}
	case gen.TFloat:
		return &fix.Float{}
	case gen.TTime:
		return &fix.Time{}
	case gen.TBool:
		return &fix.Bool{}
	case gen.TRaw:
		return &fix.Raw{}
	}
	panic("bad type")
}

func goValue(t gen.VT, v *gen.Val) interface{} {
	switch t {
	case gen.TString:
		return string(v.S)
	case gen.TRaw:
		return append([]byte(nil), v.S...)
	case gen.TInt:
		return int(v.I)
	case gen.TUint:
		return v.U
	case gen.TFloat:
		return v.Float()
	case gen.TTime:
		return v.TimeGiven()
	case gen.TBool:
		return v.B
	}
	panic("bad type")
}

func construct(t gen.VT, v *gen.Val) (fix.Value, error) {
	switch t {
	case gen.TString:
		return fix.NewString(string(v.S)), nil
	case gen.TRaw:
		return fix.NewRaw(append([]byte(nil), v.S...)), nil
	case gen.TInt:
		return fix.NewInt(int(v.I)), nil
	case gen.TUint:
		return fix.NewUint(v.U), nil
	case gen.TFloat:
		return fix.NewFloat(v.Float()), nil
	case gen.TTime:
		return fix.NewTime(v.TimeGiven()), nil
	case gen.TBool: // no public constructor
		b := &fix.Bool{}
		return b, b.Set(v.B)
	}
	panic("bad type")
}

// Install populates kv with v through the route v names.
func Install(kv *fix.KeyValue, t gen.VT, v *gen.Val) error {
	switch v.Route {
	case gen.RCtor:
		val, err := construct(t, v)
		if err != nil {
			return err
		}
		kv.Value = val
		return nil
	case gen.RKVSet:
		val, err := construct(t, v)
		if err != nil {
			return err
		}
		kv.Set(val)
		return nil
	case gen.RSet:
		return kv.Load().Set(goValue(t, v))
	case gen.RParse:
		return kv.FromBytes([]byte(gen.Text(t, v)))
	}
	panic("bad route")
}

// NewItems builds empty library items for template nodes, the way generated
// code does (explicit constructors).
func NewItems(ns []*gen.Node) fix.Items {
	out := make(fix.Items, len(ns))
	for i, n := range ns {
		switch n.K {
		case gen.KField:
			out[i] = fix.NewKeyValue(n.Tag, NewValue(n.T))
		case gen.KComp:
			out[i] = fix.NewComponent(NewItems(n.Items)...)
		case gen.KGroup:
			out[i] = fix.NewGroup(n.Tag, groupTemplate(n.Items)...)
		}
	}
	return out
}

// groupTemplate builds the template items of a repeating group. Every other Raw field
// (by its tag) is declared the short way the library's own tests use for group
// templates, without a value: &fix.KeyValue{Key: tag}; Group.AsTemplate gives such a
// field a Raw value in every entry it makes.
func groupTemplate(ns []*gen.Node) fix.Items {
	out := NewItems(ns)
	for i, n := range ns {
		if n.K == gen.KField && n.T == gen.TRaw && len(n.Tag) > 0 && (n.Tag[len(n.Tag)-1]-'0')%2 == 0 {
			out[i] = &fix.KeyValue{Key: n.Tag}
		}
	}
	return out
}

// Empty returns an unpopulated message of the template.
func Empty(tpl *gen.Template) (*fix.Message, error) {
	if tpl.Fix44 != "" {
		ctor, ok := Fix44Ctors[tpl.Fix44]
		if !ok {
			return nil, fmt.Errorf("no fix44 constructor for %s", tpl.Fix44)
		}
		m := ctor()
		if err := sameStructure(m.Header().Items(), tpl.Header); err != nil {
			return nil, fmt.Errorf("fix44 %s header: %v", tpl.Fix44, err)
		}
		if err := sameStructure(m.Body(), tpl.Body); err != nil {
			return nil, fmt.Errorf("fix44 %s body: %v", tpl.Fix44, err)
		}
		if err := sameStructure(m.Trailer().Items(), tpl.Trailer); err != nil {
			return nil, fmt.Errorf("fix44 %s trailer: %v", tpl.Fix44, err)
		}
		return m, nil
	}
	m := fix.NewMessage(tpl.Tags.BeginString, tpl.Tags.BodyLength, tpl.Tags.CheckSum, tpl.Tags.MsgType, tpl.Begin, tpl.MsgType)
	m.SetHeader(fix.NewComponent(NewItems(tpl.Header)...))
	// the application's body slice has spare capacity (a table of items from which several
	// message definitions are cut): nothing may ever be stored beyond the body's own length
	body := NewItems(tpl.Body)
	roomy := make(fix.Items, len(body), len(body)+3)
	copy(roomy, body)
	m.SetBody(roomy...)
	tr := NewItems(tpl.Trailer)
	if tpl.TrailerCS {
		tr = append(tr, fix.NewKeyValue(tpl.Tags.CheckSum, &fix.String{}))
	}
	m.SetTrailer(fix.NewComponent(tr...))
	return m, nil
}

func typeOf(v fix.Value) (gen.VT, bool) {
	switch v.(type) {
	case *fix.String:
		return gen.TString, true
	case *fix.Int:
		return gen.TInt, true
	case *fix.Uint:
		return gen.TUint, true
	case *fix.Float:
		return gen.TFloat, true
	case *fix.Time:
		return gen.TTime, true
	case *fix.Bool:
		return gen.TBool, true
	case *fix.Raw:
		return gen.TRaw, true
	}
	return 0, false
}

// sameStructure checks that library items have the tags/kinds the model says
// (top level only for groups: the library exposes no typed view of a group's
// entry template).
func sameStructure(items fix.Items, ns []*gen.Node) error {
	if len(items) != len(ns) {
		return fmt.Errorf("%d items, model has %d", len(items), len(ns))
	}
	for i, n := range ns {
		switch it := items[i].(type) {
		case *fix.KeyValue:
			if n.K != gen.KField || it.Key != n.Tag {
				return fmt.Errorf("item %d: field %s, model says kind %d tag %s", i, it.Key, n.K, n.Tag)
			}
			if vt, ok := typeOf(it.Value); !ok || vt != n.T {
				return fmt.Errorf("item %d: field %s has type %T, model says %s", i, it.Key, it.Value, n.T)
			}
		case *fix.Component:
			if n.K != gen.KComp {
				return fmt.Errorf("item %d: component, model says kind %d", i, n.K)
			}
			if err := sameStructure(it.Items(), n.Items); err != nil {
				return err
			}
		case *fix.Group:
			if n.K != gen.KGroup || it.NoTag() != n.Tag {
				return fmt.Errorf("item %d: group %s, model says kind %d tag %s", i, it.NoTag(), n.K, n.Tag)
			}
		default:
			return fmt.Errorf("item %d: unexpected %T", i, it)
		}
	}
	return nil
}

// Message builds the populated library message of a case.
func Message(c *gen.Case) (*fix.Message, error) {
	m, err := Empty(&c.Tpl)
	if err != nil {
		return nil, err
	}
	if err := fill(compC{m.Header()}, c.Tpl.Header, c.Header); err != nil {
		return nil, err
	}
	if err := fill(bodyC{m}, c.Tpl.Body, c.Body); err != nil {
		return nil, err
	}
	if err := fill(itemsC{TrailerItems(m, &c.Tpl)}, c.Tpl.Trailer, c.Trailer); err != nil {
		return nil, err
	}
	if c.Tpl.TrailerCS && c.TrailerCSVal != "" {
		all := m.Trailer().Items()
		if kv, ok := all[len(all)-1].(*fix.KeyValue); ok {
			kv.Set(fix.NewString(c.TrailerCSVal))
		}
	}
	return m, nil
}

// BeyondBody reports what the library stored in the spare capacity of the body
// slice Empty handed to SetBody ("" if nothing).
func BeyondBody(m *fix.Message) string {
	b := m.Body()
	full := b[:cap(b)]
	for i := len(b); i < len(full); i++ {
		if full[i] != nil {
			return fmt.Sprintf("slot %d beyond the %d body items now holds %T", i, len(b), full[i])
		}
	}
	return ""
}

// TrailerItems are the trailer's items the model describes (without the trailer's
// own CheckSum item of templates with TrailerCS).
func TrailerItems(m *fix.Message, tpl *gen.Template) fix.Items {
	it := m.Trailer().Items()
	if tpl.TrailerCS && tpl.Fix44 == "" && len(it) > 0 {
		return it[:len(it)-1]
	}
	return it
}

// container is what an application populates: a component (header, trailer,
// nested component, an entry held as a component the way generated code does),
// the message body, or a bare entry slice.
type container interface {
	items() fix.Items
	set(i int, it fix.Item)
}

type compC struct{ c *fix.Component }

func (c compC) items() fix.Items       { return c.c.Items() }
func (c compC) set(i int, it fix.Item) { c.c.Set(i, it) }

type bodyC struct{ m *fix.Message }

func (c bodyC) items() fix.Items       { return c.m.Body() }
func (c bodyC) set(i int, it fix.Item) { c.m.Set(i, it) }

type itemsC struct{ it fix.Items }

func (c itemsC) items() fix.Items       { return c.it }
func (c itemsC) set(i int, it fix.Item) { c.it[i] = it }

// Fill populates library items in lock-step with the model.
func Fill(items fix.Items, ns []*gen.Node, ps []*gen.Pop) error {
	return fill(itemsC{items}, ns, ps)
}

// fill populates a container in lock-step with the model, assembling each
// component and group the way its Pop.Build says (all of them ways generated
// code and its users build messages: in place, fresh object put into its slot
// with Set before or after it is populated, entries added before or after
// they are populated, entries made from the group's own template).
func fill(c container, ns []*gen.Node, ps []*gen.Pop) error {
	if len(c.items()) != len(ns) {
		return fmt.Errorf("structure mismatch: %d items vs %d nodes", len(c.items()), len(ns))
	}
	for i, n := range ns {
		p := ps[i]
		switch n.K {
		case gen.KField:
			kv, ok := c.items()[i].(*fix.KeyValue)
			if !ok {
				return fmt.Errorf("item %d is %T, not a field", i, c.items()[i])
			}
			if p.V != nil {
				if err := Install(kv, n.T, p.V); err != nil {
					return fmt.Errorf("install %s: %v", n.Tag, err)
				}
			}
		case gen.KComp:
			comp, ok := c.items()[i].(*fix.Component)
			if !ok {
				return fmt.Errorf("item %d is %T, not a component", i, c.items()[i])
			}
			switch p.Build {
			case 3:
				// the application keeps this block of fields as a plain fix.Items value (an Item like
				// any other) instead of a *fix.Component
				blk := NewItems(n.Items)
				if err := fill(itemsC{blk}, n.Items, p.Items); err != nil {
					return err
				}
				c.set(i, blk)
			case 1:
				comp = fix.NewComponent(NewItems(n.Items)...)
				if err := fill(compC{comp}, n.Items, p.Items); err != nil {
					return err
				}
				c.set(i, comp)
			case 2:
				comp = fix.NewComponent(NewItems(n.Items)...)
				c.set(i, comp)
				if err := fill(compC{comp}, n.Items, p.Items); err != nil {
					return err
				}
			default:
				if err := fill(compC{comp}, n.Items, p.Items); err != nil {
					return err
				}
			}
		case gen.KGroup:
			g, ok := c.items()[i].(*fix.Group)
			if !ok {
				return fmt.Errorf("item %d is %T, not a group", i, c.items()[i])
			}
			fresh := p.Build&4 != 0
			if fresh {
				g = fix.NewGroup(n.Tag, NewItems(n.Items)...)
				if p.Build&3 == 1 {
					c.set(i, g)
				}
			}
			for _, e := range p.Entries {
				switch p.Build & 3 {
				case 1:
					ec := fix.NewComponent(NewItems(n.Items)...)
					g.AddEntry(ec.Items())
					if err := fill(compC{ec}, n.Items, e); err != nil {
						return err
					}
				case 2:
					ec := fix.NewComponent(g.AsTemplate()...)
					if err := fill(compC{ec}, n.Items, e); err != nil {
						return err
					}
					g.AddEntry(ec.Items())
				default:
					entry := NewItems(n.Items)
					if err := fill(itemsC{entry}, n.Items, e); err != nil {
						return err
					}
					g.AddEntry(entry)
				}
			}
			if fresh && p.Build&3 != 1 {
				c.set(i, g)
			}
		}
	}
	return nil
}

// Diff is one disagreement between a library message and the model.
type Diff struct {
	Class string // "null", "type", "value", "entries", "structure"
	Path  string
	Msg   string
}

// Compare walks library items and the model in lock-step.
func Compare(items fix.Items, ns []*gen.Node, ps []*gen.Pop, path string) (out []Diff) {
	if len(items) != len(ns) {
		return []Diff{{"structure", path, fmt.Sprintf("%d items vs %d nodes", len(items), len(ns))}}
	}
	for i, n := range ns {
		p := ps[i]
		here := fmt.Sprintf("%s/%d", path, i)
		switch n.K {
		case gen.KField:
			kv, ok := items[i].(*fix.KeyValue)
			if !ok {
				out = append(out, Diff{"structure", here, fmt.Sprintf("%T is not a field", items[i])})
				continue
			}
			here += ":" + n.Tag
			if kv.Value == nil {
				out = append(out, Diff{"null", here, "nil value"})
				continue
			}
			if kv.Value.IsNull() != (p.V == nil) {
				out = append(out, Diff{"null", here, fmt.Sprintf("IsNull=%v, model populated=%v", kv.Value.IsNull(), p.V != nil)})
				continue
			}
			vt, ok := typeOf(kv.Value)
			if !ok || vt != n.T {
				out = append(out, Diff{"type", here + ":" + n.T.String(), fmt.Sprintf("value has type %T, template says %s", kv.Value, n.T)})
				continue
			}
			if p.V == nil {
				continue
			}
			if msg := valueDiff(n.T, kv.Value.Value(), p.V); msg != "" {
				out = append(out, Diff{"value", here + ":" + n.T.String(), msg})
			}
		case gen.KComp:
			comp, ok := items[i].(*fix.Component)
			if !ok {
				out = append(out, Diff{"structure", here, fmt.Sprintf("%T is not a component", items[i])})
				continue
			}
			out = append(out, Compare(comp.Items(), n.Items, p.Items, here)...)
		case gen.KGroup:
			g, ok := items[i].(*fix.Group)
			if !ok {
				out = append(out, Diff{"structure", here, fmt.Sprintf("%T is not a group", items[i])})
				continue
			}
			here += ":" + n.Tag
			es := g.Entries()
			if len(es) != len(p.Entries) {
				out = append(out, Diff{"entries", here, fmt.Sprintf("%d entries, model has %d", len(es), len(p.Entries))})
				continue
			}
			for j, e := range p.Entries {
				out = append(out, Compare(es[j], n.Items, e, fmt.Sprintf("%s[%d]", here, j))...)
			}
		}
	}
	return out
}

func valueDiff(t gen.VT, got interface{}, v *gen.Val) string {
	switch t {
	case gen.TString:
		s, ok := got.(string)
		if !ok || s != string(v.S) {
			return fmt.Sprintf("got %q want %q", got, v.S)
		}
	case gen.TRaw:
		b, ok := got.([]byte)
		if !ok || !bytes.Equal(b, v.S) {
			return fmt.Sprintf("got %q want %q", got, v.S)
		}
	case gen.TInt:
		n, ok := got.(int)
		if !ok || int64(n) != v.I {
			return fmt.Sprintf("got %v want %d", got, v.I)
		}
	case gen.TUint:
		n, ok := got.(uint64)
		if !ok || n != v.U {
			return fmt.Sprintf("got %v want %d", got, v.U)
		}
	case gen.TFloat:
		f, ok := got.(float64)
		if !ok || math.Float64bits(f) != v.F {
			return fmt.Sprintf("got %v (bits %x) want %v (bits %x)", got, math.Float64bits(f), v.Float(), v.F)
		}
	case gen.TTime:
		tm, ok := got.(time.Time)
		if !ok || !tm.Equal(v.Time()) {
			return fmt.Sprintf("got %v want %v", got, v.Time())
		}
		if _, off := tm.Zone(); off != 0 {
			return fmt.Sprintf("got %v which is not UTC", tm)
		}
	case gen.TBool:
		b, ok := got.(bool)
		if !ok || b != v.B {
			return fmt.Sprintf("got %v want %v", got, v.B)
		}
	}
	return ""
}

// LeafRef is a field leaf of a populated library message together with its
// model node and population slot.
type LeafRef struct {
	KV      *fix.KeyValue
	N       *gen.Node
	P       *gen.Pop
	InEntry bool
	First   bool // first leaf of a group entry (its delimiter)
}

// Leaves enumerates all field leaves (including those of existing group
// entries) of library items in lock-step with the model.
func Leaves(items fix.Items, ns []*gen.Node, ps []*gen.Pop, inEntry, first bool, out *[]LeafRef) {
	for i, n := range ns {
		p := ps[i]
		f := first && i == 0
		switch n.K {
		case gen.KField:
			if kv, ok := items[i].(*fix.KeyValue); ok {
				*out = append(*out, LeafRef{kv, n, p, inEntry, f})
			}
		case gen.KComp:
			if sub, ok := blockItems(items[i]); ok {
				Leaves(sub, n.Items, p.Items, inEntry, f, out)
			}
		case gen.KGroup:
			if g, ok := items[i].(*fix.Group); ok {
				es := g.Entries()
				for j, e := range p.Entries {
					if j < len(es) {
						Leaves(es[j], n.Items, e, true, true, out)
					}
				}
			}
		}
	}
}

// blockItems returns the members of a component, whether the application keeps
// it as a *fix.Component or as a plain fix.Items block (both are Items of a body).
func blockItems(it fix.Item) (fix.Items, bool) {
	switch b := it.(type) {
	case *fix.Component:
		return b.Items(), true
	case fix.Items:
		return b, true
	}
	return nil, false
}

// GroupRef is a group of a library message with its model.
type GroupRef struct {
	G *fix.Group
	N *gen.Node
	P *gen.Pop
}

// Groups enumerates the groups outside group entries.
func Groups(items fix.Items, ns []*gen.Node, ps []*gen.Pop, out *[]GroupRef) {
	for i, n := range ns {
		p := ps[i]
		switch n.K {
		case gen.KComp:
			if sub, ok := blockItems(items[i]); ok {
				Groups(sub, n.Items, p.Items, out)
			}
		case gen.KGroup:
			if g, ok := items[i].(*fix.Group); ok {
				*out = append(*out, GroupRef{g, n, p})
			}
		}
	}
}
