package netsim

import (
	"bytes"
	"io"
	"testing"
	"testing/synctest"
	"time"

	"pgregory.net/rapid"
)

// bytes fed = bytes read, for any chunking; one chunk = one Read.
func TestFeedRead(t *testing.T) {
	rapid.Check(t, func(rt *rapid.T) {
		chunks := rapid.SliceOfN(rapid.SliceOfN(rapid.Byte(), 1, 50), 0, 20).Draw(rt, "chunks")
		synctest.Test(t, func(t *testing.T) {
			c := NewConn("x")
			var want []byte
			for _, ch := range chunks {
				c.Feed(ch)
				want = append(want, ch...)
			}
			c.PeerClose()
			var got []byte
			buf := make([]byte, 4096)
			reads := 0
			for {
				n, err := c.Read(buf)
				got = append(got, buf[:n]...)
				if err == io.EOF {
					break
				}
				if err != nil {
					t.Fatal(err)
				}
				if n != len(chunks[reads]) {
					t.Fatalf("read %d returned %d bytes, chunk has %d", reads, n, len(chunks[reads]))
				}
				reads++
			}
			if !bytes.Equal(got, want) {
				t.Fatalf("stream differs")
			}
		})
	})
}

func TestStallDeadline(t *testing.T) {
	synctest.Test(t, func(t *testing.T) {
		c := NewConn("x")
		c.Stall(true)
		_ = c.SetWriteDeadline(time.Now().Add(5 * time.Second))
		t0 := time.Now()
		_, err := c.Write([]byte("abc"))
		ne, ok := err.(interface{ Timeout() bool })
		if err == nil || !ok || !ne.Timeout() {
			t.Fatalf("want timeout, got %v", err)
		}
		if d := time.Since(t0); d != 5*time.Second {
			t.Fatalf("write returned after %v", d)
		}
		// Close unblocks a stalled write
		_ = c.SetWriteDeadline(time.Now().Add(time.Hour))
		go func() { time.Sleep(time.Second); c.Close() }()
		if _, err := c.Write([]byte("x")); err == nil {
			t.Fatal("write on closed conn succeeded")
		}
	})
}
