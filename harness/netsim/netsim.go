// Package netsim is a scripted in-memory net.Conn / net.Listener. The peer end
// is driven by the test: every Feed chunk is returned by exactly one Read of
// the library, writes are captured with their (virtual) time, and faults can
// be injected. Only sync.Cond waits and timers are used, so every wait is
// durably blocking inside a synctest bubble.
package netsim

import (
	"errors"
	"io"
	"net"
	"sync"
	"syscall"
	"time"
)

type timeoutErr struct{}

func (timeoutErr) Error() string   { return "i/o timeout" }
func (timeoutErr) Timeout() bool   { return true }
func (timeoutErr) Temporary() bool { return true }

// ErrTimeout is returned by a Write whose deadline passed.
var ErrTimeout net.Error = timeoutErr{}

// Write is one captured write of the library.
type Write struct {
	At    time.Time
	Bytes []byte
}

type addr string

func (a addr) Network() string { return "netsim" }
func (a addr) String() string  { return string(a) }

// Conn is the library's end of a scripted connection.
type Conn struct {
	mu   sync.Mutex
	cond *sync.Cond

	inbox    [][]byte
	eof      bool  // peer closed: EOF once inbox is drained
	readErr  error // delivered once inbox is drained (read error after k bytes)
	resetErr error // delivered immediately; pending data dropped

	closed   bool
	closedAt time.Time

	writes        []Write
	nWrites       int
	failWriteOn   int // 1-based; 0 = never
	failNext      bool
	stalled       bool
	expired       bool // stalled writes fail with a timeout now, whatever the clock says
	writeDeadline time.Time
	readDeadline  time.Time
	writeDelay    time.Duration // latency of every write

	Name string
}

func NewConn(name string) *Conn {
	c := &Conn{Name: name}
	c.cond = sync.NewCond(&c.mu)
	return c
}

// ---- peer side ----

// Feed makes one library Read return exactly chunk (or its first len(p) bytes
// and the rest on the next Read when the caller's buffer is smaller).
func (c *Conn) Feed(chunk []byte) {
	if len(chunk) == 0 {
		return
	}
	c.mu.Lock()
	c.inbox = append(c.inbox, append([]byte(nil), chunk...))
	c.mu.Unlock()
	c.cond.Broadcast()
}

// PeerClose: the peer closes its end: EOF after pending data.
func (c *Conn) PeerClose() {
	c.mu.Lock()
	c.eof = true
	c.mu.Unlock()
	c.cond.Broadcast()
}

// PeerReset: connection reset: immediate error, pending data dropped.
func (c *Conn) PeerReset() {
	c.mu.Lock()
	c.resetErr = &net.OpError{Op: "read", Net: "netsim", Err: syscall.ECONNRESET}
	c.inbox = nil
	c.mu.Unlock()
	c.cond.Broadcast()
}

// FailRead: a read error once the pending data has been consumed.
func (c *Conn) FailRead(err error) {
	c.mu.Lock()
	c.readErr = err
	c.mu.Unlock()
	c.cond.Broadcast()
}

// FailWriteOn makes the n-th write from now (1 = the next one) fail.
func (c *Conn) FailWriteOn(n int) {
	c.mu.Lock()
	c.failWriteOn = c.nWrites + n
	c.mu.Unlock()
}

// FailNextWrite makes the next write to complete (one that is blocked on a
// stalled peer right now, or else the next call) fail.
func (c *Conn) FailNextWrite() {
	c.mu.Lock()
	c.failNext = true
	c.mu.Unlock()
	c.cond.Broadcast()
}

// Stall: the peer stops reading; writes block until their deadline.
func (c *Conn) Stall(on bool) {
	c.mu.Lock()
	c.stalled = on
	c.mu.Unlock()
	c.cond.Broadcast()
}

// ExpireWrites makes every write that is (or will be) blocked on a stalled
// peer fail with a timeout error, as if its deadline had passed. Scripts use
// it instead of letting virtual time run to the deadline: while a sender waits
// for the write, other goroutines may queue on a library mutex, and a
// goroutine queued on a mutex is not durably blocked, so the bubble's clock
// would never reach the deadline.
func (c *Conn) ExpireWrites() {
	c.mu.Lock()
	c.expired = true
	c.mu.Unlock()
	c.cond.Broadcast()
}

func (c *Conn) SetWriteDelay(d time.Duration) {
	c.mu.Lock()
	c.writeDelay = d
	c.mu.Unlock()
}

// Captured returns the writes so far.
func (c *Conn) Captured() []Write {
	c.mu.Lock()
	defer c.mu.Unlock()
	return append([]Write(nil), c.writes...)
}

// Stream returns all written bytes concatenated.
func (c *Conn) Stream() []byte {
	c.mu.Lock()
	defer c.mu.Unlock()
	var out []byte
	for _, w := range c.writes {
		out = append(out, w.Bytes...)
	}
	return out
}

func (c *Conn) IsClosed() (bool, time.Time) {
	c.mu.Lock()
	defer c.mu.Unlock()
	return c.closed, c.closedAt
}

// Pending reports how many fed bytes the library has not read yet.
func (c *Conn) Pending() int {
	c.mu.Lock()
	defer c.mu.Unlock()
	n := 0
	for _, b := range c.inbox {
		n += len(b)
	}
	return n
}

// ---- net.Conn ----

func (c *Conn) Read(p []byte) (int, error) {
	c.mu.Lock()
	defer c.mu.Unlock()
	// like a real socket: a read deadline that has passed fails the read (pending
	// data or not), and one that passes while the read is blocked wakes it up
	var timer *time.Timer
	var armedFor time.Time
	defer func() {
		if timer != nil {
			timer.Stop()
		}
	}()
	for {
		if c.closed {
			return 0, net.ErrClosed
		}
		if c.resetErr != nil {
			return 0, c.resetErr
		}
		if !c.readDeadline.IsZero() {
			if !time.Now().Before(c.readDeadline) {
				return 0, &net.OpError{Op: "read", Net: "netsim", Err: ErrTimeout}
			}
			if !armedFor.Equal(c.readDeadline) {
				if timer != nil {
					timer.Stop()
				}
				armedFor = c.readDeadline
				timer = time.AfterFunc(time.Until(c.readDeadline), c.cond.Broadcast)
			}
		}
		if len(c.inbox) > 0 {
			chunk := c.inbox[0]
			n := copy(p, chunk)
			if n < len(chunk) {
				c.inbox[0] = chunk[n:]
			} else {
				c.inbox = c.inbox[1:]
			}
			return n, nil
		}
		if c.readErr != nil {
			return 0, c.readErr
		}
		if c.eof {
			return 0, io.EOF
		}
		c.cond.Wait()
	}
}

var ErrInjectedWrite = errors.New("netsim: injected write error")

func (c *Conn) Write(p []byte) (int, error) {
	c.mu.Lock()
	delay := c.writeDelay
	c.mu.Unlock()
	if delay > 0 {
		time.Sleep(delay)
	}
	c.mu.Lock()
	defer c.mu.Unlock()
	c.nWrites++
	if c.failWriteOn != 0 && c.nWrites == c.failWriteOn {
		return 0, &net.OpError{Op: "write", Net: "netsim", Err: ErrInjectedWrite}
	}
	var timer *time.Timer
	for {
		if c.closed {
			if timer != nil {
				timer.Stop()
			}
			return 0, net.ErrClosed
		}
		if c.failNext {
			c.failNext = false
			return 0, &net.OpError{Op: "write", Net: "netsim", Err: ErrInjectedWrite}
		}
		if !c.writeDeadline.IsZero() && !time.Now().Before(c.writeDeadline) {
			// like a real socket: a write attempted after its deadline fails, whether or not the peer reads
			return 0, &net.OpError{Op: "write", Net: "netsim", Err: ErrTimeout}
		}
		if !c.stalled {
			break
		}
		if c.expired {
			return 0, &net.OpError{Op: "write", Net: "netsim", Err: ErrTimeout}
		}
		if !c.writeDeadline.IsZero() && !time.Now().Before(c.writeDeadline) {
			return 0, &net.OpError{Op: "write", Net: "netsim", Err: ErrTimeout}
		}
		if timer == nil && !c.writeDeadline.IsZero() {
			timer = time.AfterFunc(time.Until(c.writeDeadline), c.cond.Broadcast)
		}
		c.cond.Wait()
	}
	if timer != nil {
		timer.Stop()
	}
	c.writes = append(c.writes, Write{At: time.Now(), Bytes: append([]byte(nil), p...)})
	return len(p), nil
}

func (c *Conn) Close() error {
	c.mu.Lock()
	already := c.closed
	if !already {
		c.closed = true
		c.closedAt = time.Now()
	}
	c.mu.Unlock()
	c.cond.Broadcast()
	if already {
		return net.ErrClosed
	}
	return nil
}

func (c *Conn) LocalAddr() net.Addr  { return addr("lib:" + c.Name) }
func (c *Conn) RemoteAddr() net.Addr { return addr("peer:" + c.Name) }
func (c *Conn) SetDeadline(t time.Time) error {
	if err := c.SetReadDeadline(t); err != nil {
		return err
	}
	return c.SetWriteDeadline(t)
}
func (c *Conn) SetReadDeadline(t time.Time) error {
	c.mu.Lock()
	defer c.mu.Unlock()
	if c.closed {
		return net.ErrClosed
	}
	c.readDeadline = t
	c.cond.Broadcast()
	return nil
}
func (c *Conn) SetWriteDeadline(t time.Time) error {
	c.mu.Lock()
	defer c.mu.Unlock()
	if c.closed {
		return net.ErrClosed
	}
	c.writeDeadline = t
	return nil
}

// Listener hands out scripted connections.
type Listener struct {
	mu     sync.Mutex
	cond   *sync.Cond
	queue  []*Conn
	closed bool
	// OnAccept, if set, runs right before Accept hands a connection over (set it before connecting)
	OnAccept func(c *Conn)
}

func NewListener() *Listener {
	l := &Listener{}
	l.cond = sync.NewCond(&l.mu)
	return l
}

// Connect makes Accept return c.
func (l *Listener) Connect(c *Conn) {
	l.mu.Lock()
	l.queue = append(l.queue, c)
	l.mu.Unlock()
	l.cond.Broadcast()
}

func (l *Listener) Accept() (net.Conn, error) {
	l.mu.Lock()
	for {
		if l.closed {
			l.mu.Unlock()
			return nil, net.ErrClosed
		}
		if len(l.queue) > 0 {
			c := l.queue[0]
			l.queue = l.queue[1:]
			hook := l.OnAccept
			l.mu.Unlock()
			if hook != nil {
				hook(c) // what happens between the kernel completing the handshake and Accept returning
			}
			return c, nil
		}
		l.cond.Wait()
	}
}

func (l *Listener) Close() error {
	l.mu.Lock()
	l.closed = true
	l.mu.Unlock()
	l.cond.Broadcast()
	return nil
}

func (l *Listener) IsClosed() bool {
	l.mu.Lock()
	defer l.mu.Unlock()
	return l.closed
}

func (l *Listener) Addr() net.Addr { return addr("listener") }
