package gen

import (
	"fmt"
	"sync"

	"verif/harness/ref"
	"verif/harness/schema"
)

var castVT = map[string]VT{"String": TString, "Int": TInt, "Float": TFloat, "Time": TTime, "Bool": TBool, "Raw": TRaw, "Uint": TUint}

func resolve(s *schema.Schema, tm *schema.TypeMap, ms []*schema.Member, dropFraming bool) ([]*Node, error) {
	var out []*Node
	for _, m := range ms {
		switch m.Kind {
		case "field":
			if dropFraming && schema.Framing[m.Name] {
				continue
			}
			f := s.Field(m.Name)
			if f == nil {
				return nil, fmt.Errorf("field %s undefined", m.Name)
			}
			cast, err := s.ValueType(tm, f)
			if err != nil {
				return nil, err
			}
			out = append(out, &Node{K: KField, Tag: f.Number, T: castVT[cast]})
		case "component":
			c := s.Component(m.Name)
			if c == nil {
				return nil, fmt.Errorf("component %s undefined", m.Name)
			}
			items, err := resolve(s, tm, c.Members, false)
			if err != nil {
				return nil, err
			}
			out = append(out, &Node{K: KComp, Items: items})
		case "group":
			f := s.Field(m.Name)
			if f == nil {
				return nil, fmt.Errorf("group count field %s undefined", m.Name)
			}
			// The generator emits one Go type per group *name* (the last
			// definition it meets wins), so a message's group has the
			// members of that definition.
			def := m
			if g, ok := groupDefs(s)[m.Name]; ok {
				def = g
			}
			items, err := resolve(s, tm, def.Members, false)
			if err != nil {
				return nil, err
			}
			out = append(out, &Node{K: KGroup, Tag: f.Number, Items: items})
		}
	}
	return out, nil
}

// TemplatesOf derives one Template per message of a schema.
func TemplatesOf(s *schema.Schema, tm *schema.TypeMap) ([]Template, error) {
	hdr, err := resolve(s, tm, s.Header.Members, true)
	if err != nil {
		return nil, err
	}
	trl, err := resolve(s, tm, s.Trailer.Members, true)
	if err != nil {
		return nil, err
	}
	tags := ref.Tags{}
	for name, dst := range map[string]*string{"BeginString": &tags.BeginString, "BodyLength": &tags.BodyLength, "MsgType": &tags.MsgType, "CheckSum": &tags.CheckSum} {
		f := s.Field(name)
		if f == nil {
			return nil, fmt.Errorf("framing field %s undefined", name)
		}
		*dst = f.Number
	}
	var out []Template
	for _, m := range s.Messages {
		body, err := resolve(s, tm, m.Members, false)
		if err != nil {
			return nil, err
		}
		out = append(out, Template{
			Tags: tags, Begin: s.Type + "." + s.Major + "." + s.Minor, MsgType: m.MsgType,
			Header: hdr, Body: body, Trailer: trl, Fix44: m.Name,
		})
	}
	return out, nil
}

var (
	fix44Once sync.Once
	fix44Tpls []Template
	fix44Err  error
)

// Fix44 returns the templates of the repository's reference schema
// (source/fix44.xml + source/types.xml), read with the harness's own reader.
func Fix44() ([]Template, error) {
	fix44Once.Do(func() {
		s, err := schema.Load(schema.RepoDir() + "/source/fix44.xml")
		if err != nil {
			fix44Err = err
			return
		}
		tm, err := schema.LoadTypes(schema.RepoDir() + "/source/types.xml")
		if err != nil {
			fix44Err = err
			return
		}
		fix44Tpls, fix44Err = TemplatesOf(s, tm)
	})
	return fix44Tpls, fix44Err
}

var groupDefCache = map[*schema.Schema]map[string]*schema.Member{}

// groupDefs maps a group name to the definition the generator ends up using:
// it walks messages, components, header, trailer in that order and keeps the
// last group seen under each name.
func groupDefs(s *schema.Schema) map[string]*schema.Member {
	if m, ok := groupDefCache[s]; ok {
		return m
	}
	defs := map[string]*schema.Member{}
	var grab func(m *schema.Member)
	grab = func(m *schema.Member) {
		if m.Kind == "group" {
			defs[m.Name] = m
		}
		for _, c := range m.Members {
			grab(c)
		}
	}
	for _, msg := range s.Messages {
		for _, m := range msg.Members {
			grab(m)
		}
	}
	for _, c := range s.Components {
		for _, m := range c.Members {
			grab(m)
		}
	}
	for _, m := range s.Header.Members {
		grab(m)
	}
	for _, m := range s.Trailer.Members {
		grab(m)
	}
	groupDefCache[s] = defs
	return defs
}
