// Package gen holds the message model the codec checks quantify over
// (templates, populations, values), its rapid generators, and the
// model-side computations (expected wire tokens) that serve as oracles.
package gen

import (
	"fmt"
	"math"
	"strconv"
	"time"

	"verif/harness/ref"
)

type VT int

const (
	TString VT = iota
	TInt
	TUint
	TFloat
	TTime
	TBool
	TRaw
)

var VTNames = []string{"String", "Int", "Uint", "Float", "Time", "Bool", "Raw"}

func (t VT) String() string { return VTNames[t] }

const (
	KField = 0
	KComp  = 1
	KGroup = 2
)

// Node is one template item.
type Node struct {
	K     int     `json:"k"`
	Tag   string  `json:"tag,omitempty"` // field tag, or count tag of a group
	T     VT      `json:"t"`
	Items []*Node `json:"items,omitempty"`
}

// Template is a message definition.
type Template struct {
	Tags    ref.Tags `json:"tags"`
	Begin   string   `json:"begin"`
	MsgType string   `json:"msgtype"`
	Header  []*Node  `json:"header"`
	Body    []*Node  `json:"body"`
	Trailer []*Node  `json:"trailer"`
	Fix44   string   `json:"fix44,omitempty"` // name of the tests/fix44 message this template describes
	// TrailerCS: the trailer component also declares the CheckSum field itself, as the FIX
	// dictionary's StandardTrailer does (last item). The library writes the real CheckSum
	// after the trailer and never this item; a parse fills it with the received value.
	TrailerCS bool `json:"trailer_cs,omitempty"`
}

// Installation routes of a value.
const (
	RCtor    = 0 // public constructor (NewString, NewInt, ...; Bool has none: &Bool{} + Set)
	RSet     = 1 // Set on an empty typed value
	RKVSet   = 2 // KeyValue.Set(constructed value)
	RParse   = 3 // Value.FromBytes(canonical text)
	NumRoute = 4
)

var RouteNames = []string{"ctor", "set", "kvset", "parse"}

// Val is a generated value of a field.
type Val struct {
	Route int    `json:"route"`
	S     []byte `json:"s,omitempty"` // String / Raw
	I     int64  `json:"i,omitempty"`
	U     uint64 `json:"u,omitempty"`
	F     uint64 `json:"f,omitempty"`    // float64 bits
	T     int64  `json:"tm,omitempty"`   // unix milliseconds, UTC
	Sub   int32  `json:"sub,omitempty"`  // nanoseconds below the millisecond of the time.Time handed to the library (the wire format has milliseconds: they are cut off, not rounded)
	Zone  int32  `json:"zone,omitempty"` // minutes east of UTC of the location the given time.Time carries (0: UTC); the wall clock is the same
	B     bool   `json:"b,omitempty"`
	Decoy bool   `json:"decoy,omitempty"`
}

// Pop is the population of one template item.
type Pop struct {
	V       *Val     `json:"v,omitempty"`       // field: nil = not populated
	Items   []*Pop   `json:"items,omitempty"`   // component
	Entries [][]*Pop `json:"entries,omitempty"` // group
	// Build: how the application assembles this component / group (see build.Fill):
	// component 0 = populated in place, 1 = a fresh component populated and then put
	// into its slot with Set, 2 = put into its slot first and populated afterwards,
	// 3 = kept as a plain fix.Items block (not a *fix.Component) put into its slot;
	// group 0 = entries made from explicit items, populated, then added; 1 = entry
	// component added first (AddEntry(entry.Items())) and populated afterwards through
	// the entry; 2 = entries made from Group.AsTemplate(), populated, then added;
	// +4 = the group object itself is a fresh one put into its slot with Set.
	Build int `json:"build,omitempty"`
}

// Case is a template with a population.
type Case struct {
	Tpl     Template `json:"tpl"`
	Header  []*Pop   `json:"header"`
	Body    []*Pop   `json:"body"`
	Trailer []*Pop   `json:"trailer"`
	// TrailerCSVal: with Tpl.TrailerCS, the text the trailer's own CheckSum item holds before
	// serialization (what an earlier parse left there); it must not reach the wire
	TrailerCSVal string `json:"trailer_cs_val,omitempty"`
}

func (v *Val) Float() float64  { return math.Float64frombits(v.F) }
func (v *Val) Time() time.Time { return time.UnixMilli(v.T).UTC() }

// TimeGiven is the time.Time the application hands to a constructor or setter.
// With Zone != 0 it carries a location other than UTC (offset in minutes) and the same wall clock: the
// library writes the wall clock of the value it is given, through the constructor and the setter alike.
func (v *Val) TimeGiven() time.Time {
	tm := v.Time().Add(time.Duration(v.Sub))
	if v.Zone != 0 {
		return time.Date(tm.Year(), tm.Month(), tm.Day(), tm.Hour(), tm.Minute(), tm.Second(), tm.Nanosecond(), time.FixedZone("zone", int(v.Zone)*60))
	}
	return tm
}

// Text is the canonical wire text of a value ("" for Float: use FloatTextOK).
func Text(t VT, v *Val) string {
	switch t {
	case TString, TRaw:
		return string(v.S)
	case TInt:
		return strconv.FormatInt(v.I, 10)
	case TUint:
		return strconv.FormatUint(v.U, 10)
	case TBool:
		if v.B {
			return "Y"
		}
		return "N"
	case TTime:
		tm := v.Time()
		return ref.TimeText(tm.Year(), int(tm.Month()), tm.Day(), tm.Hour(), tm.Minute(), tm.Second(), tm.Nanosecond()/1e6)
	case TFloat:
		return strconv.FormatFloat(v.Float(), 'f', -1, 64)
	}
	panic("bad type")
}

// Leaf is an expected wire field with its origin.
type Leaf struct {
	Tok   ref.Tok
	T     VT
	V     *Val // nil for a group count field
	Part  string
	Count bool
	Depth int  // number of enclosing group entries
	First bool // delimiter (first leaf) of a group entry
}

// Wire lists the expected fields of header, body and trailer in template
// order: populated leaves, each group as count + entries.
func Wire(c *Case) (header, body, trailer []Leaf) {
	header = wireItems(c.Tpl.Header, c.Header, "header", 0, false, nil)
	body = wireItems(c.Tpl.Body, c.Body, "body", 0, false, nil)
	trailer = wireItems(c.Tpl.Trailer, c.Trailer, "trailer", 0, false, nil)
	return
}

func wireItems(ns []*Node, ps []*Pop, part string, depth int, first bool, out []Leaf) []Leaf {
	for i, n := range ns {
		p := ps[i]
		f := first && i == 0
		switch n.K {
		case KField:
			if p.V != nil {
				out = append(out, Leaf{Tok: ref.Tok{Tag: n.Tag, Val: Text(n.T, p.V), HasEq: true}, T: n.T, V: p.V, Part: part, Depth: depth, First: f})
			}
		case KComp:
			out = wireItems(n.Items, p.Items, part, depth, f, out)
		case KGroup:
			if len(p.Entries) > 0 {
				out = append(out, Leaf{Tok: ref.Tok{Tag: n.Tag, Val: strconv.Itoa(len(p.Entries)), HasEq: true}, T: TInt, Part: part, Count: true, Depth: depth})
				for _, e := range p.Entries {
					out = wireItems(n.Items, e, part, depth+1, true, out)
				}
			}
		}
	}
	return out
}

// DuplicateTag returns a tag that occupies more than one position of the
// template ("" if every tag is unique).
func DuplicateTag(t *Template) string {
	seen := map[string]bool{}
	for _, tag := range AllTags(t) {
		if seen[tag] {
			return tag
		}
		seen[tag] = true
	}
	return ""
}

// Expected assembles the message the FIX definition prescribes for c
// (Float fields rendered with the shortest exact decimal text). With
// withTrailer=false the trailer leaves are left out.
func Expected(c *Case, withTrailer bool) []byte {
	h, b, tr := Wire(c)
	var toks []ref.Tok
	for _, l := range h {
		toks = append(toks, l.Tok)
	}
	for _, l := range b {
		toks = append(toks, l.Tok)
	}
	if withTrailer {
		for _, l := range tr {
			toks = append(toks, l.Tok)
		}
	}
	return ref.Assemble(c.Tpl.Tags, c.Tpl.Begin, c.Tpl.MsgType, toks)
}

// AllTags lists every tag of the template (fields, group counts, framing).
func AllTags(t *Template) []string {
	out := []string{t.Tags.BeginString, t.Tags.BodyLength, t.Tags.MsgType, t.Tags.CheckSum}
	var walk func(ns []*Node)
	walk = func(ns []*Node) {
		for _, n := range ns {
			if n.K != KComp {
				out = append(out, n.Tag)
			}
			walk(n.Items)
		}
	}
	walk(t.Header)
	walk(t.Body)
	walk(t.Trailer)
	return out
}

// Shape is a compact structural description of a template.
func Shape(ns []*Node) string {
	s := ""
	for _, n := range ns {
		switch n.K {
		case KField:
			s += string("SIUFTBR"[n.T])
		case KComp:
			s += "(" + Shape(n.Items) + ")"
		case KGroup:
			s += "[" + Shape(n.Items) + "]"
		}
	}
	return s
}

// PopShape is a compact description of a population.
func PopShape(ns []*Node, ps []*Pop) string {
	s := ""
	for i, n := range ns {
		p := ps[i]
		switch n.K {
		case KField:
			if p.V != nil {
				s += fmt.Sprintf("%c%d", "SIUFTBR"[n.T], p.V.Route)
			} else {
				s += "-"
			}
		case KComp:
			s += "(" + PopShape(n.Items, p.Items) + ")"
		case KGroup:
			s += "["
			for _, e := range p.Entries {
				s += "{" + PopShape(n.Items, e) + "}"
			}
			s += "]"
		}
	}
	return s
}

// Stats summarises a case for non-triviality rules.
type Stats struct {
	Populated   int
	Unpopulated int
	Types       map[VT]bool
	Routes      map[int]bool
	MaxEntries  int
	Groups      int
	Depth       int
	Decoys      int
	TrailerPop  int
}

func CaseStats(c *Case) Stats {
	st := Stats{Types: map[VT]bool{}, Routes: map[int]bool{}}
	var walk func(ns []*Node, ps []*Pop, depth int, trailer bool)
	walk = func(ns []*Node, ps []*Pop, depth int, trailer bool) {
		if depth > st.Depth {
			st.Depth = depth
		}
		for i, n := range ns {
			p := ps[i]
			switch n.K {
			case KField:
				if p.V != nil {
					st.Populated++
					st.Types[n.T] = true
					st.Routes[p.V.Route] = true
					if p.V.Decoy {
						st.Decoys++
					}
					if trailer {
						st.TrailerPop++
					}
				} else {
					st.Unpopulated++
				}
			case KComp:
				walk(n.Items, p.Items, depth+1, trailer)
			case KGroup:
				if len(p.Entries) > 0 {
					st.Groups++
				}
				if len(p.Entries) > st.MaxEntries {
					st.MaxEntries = len(p.Entries)
				}
				for _, e := range p.Entries {
					walk(n.Items, e, depth+1, trailer)
				}
			}
		}
	}
	walk(c.Tpl.Header, c.Header, 0, false)
	walk(c.Tpl.Body, c.Body, 0, false)
	walk(c.Tpl.Trailer, c.Trailer, 0, true)
	return st
}
