package gen

import (
	"math"
	"strconv"

	"pgregory.net/rapid"

	"verif/harness/ref"
)

// tag families: decimal prefixes/suffixes of one another and of the default
// framing tags, so that lookups that are not anchored or not whole-tag are hit.
var familyTags = []string{
	"14", "46", "146", "1146", "1461", "461", "6", "4",
	"5", "55", "155", "551", "1055",
	"110", "1010", "100", "101", "210", "1",
	"88", "18", "81", "108", "98",
	"99", "19", "89", "109", "29",
	"135", "351", "3", "235", "350",
	"34", "134", "341", "340", "234",
	"268", "269", "2269", "1269", "69",
}

type tagPool struct {
	used map[string]bool
}

func (p *tagPool) draw(t *rapid.T, label string) string {
	var cand string
	if rapid.IntRange(0, 9).Draw(t, label+"Fam") < 6 {
		cand = rapid.SampledFrom(familyTags).Draw(t, label)
	} else {
		cand = strconv.Itoa(rapid.IntRange(1, 20000).Draw(t, label))
	}
	n, _ := strconv.Atoi(cand)
	for p.used[cand] {
		n = n*10 + 1 // stay in the same prefix family
		if n > 99999999 {
			n = n%9973 + 1
		}
		cand = strconv.Itoa(n)
	}
	p.used[cand] = true
	return cand
}

var beginStrings = []string{"FIX.4.4", "FIX.4.2", "FIXT.1.1", "F", "FIX.5.0SP2", "FIX.4.0", "FIX.4.1", "FIX.4.3", "FIX.5.0"}
var msgTypes = []string{"A", "0", "1", "2", "3", "4", "5", "D", "V", "W", "X", "AE", "8", "x", "ZZ"}

// Opts steer template generation.
type Opts struct {
	StdFraming   bool // force the default framing tags 8/9/35/10
	NoTrailerPop bool // never populate trailer fields
	MaxDepth     int
	MaxItems     int
	SimpleBegin  bool
}

var DefaultOpts = Opts{MaxDepth: 4, MaxItems: 8}

func GenTemplate(t *rapid.T, o Opts) Template {
	p := &tagPool{used: map[string]bool{}}
	var tpl Template
	if o.StdFraming || rapid.IntRange(0, 99).Draw(t, "framing") < 85 {
		tpl.Tags = ref.StdTags
		for _, x := range []string{"8", "9", "35", "10"} {
			p.used[x] = true
		}
	} else {
		tpl.Tags = ref.Tags{
			BeginString: p.draw(t, "tagBegin"),
			BodyLength:  p.draw(t, "tagLen"),
			MsgType:     p.draw(t, "tagType"),
			CheckSum:    p.draw(t, "tagSum"),
		}
	}
	if o.SimpleBegin || rapid.IntRange(0, 9).Draw(t, "beginKind") < 8 {
		tpl.Begin = rapid.SampledFrom(beginStrings).Draw(t, "begin")
	} else {
		tpl.Begin = string(genBytes(t, "beginRaw", 1, 12))
	}
	if rapid.IntRange(0, 9).Draw(t, "typeKind") < 8 {
		tpl.MsgType = rapid.SampledFrom(msgTypes).Draw(t, "msgType")
	} else {
		tpl.MsgType = rapid.StringMatching(`[A-Za-z0-9]{1,3}`).Draw(t, "msgTypeRaw")
	}
	maxItems := o.MaxItems
	if rapid.IntRange(0, 9).Draw(t, "hdrEmpty") >= 2 {
		tpl.Header = genItems(t, p, 1, o.MaxDepth, 1, min(maxItems, 5), "h")
	}
	if rapid.IntRange(0, 9).Draw(t, "bodyEmpty") >= 2 {
		tpl.Body = genItems(t, p, 0, o.MaxDepth, 1, maxItems, "b")
	}
	if rapid.IntRange(0, 9).Draw(t, "trlEmpty") >= 5 {
		tpl.Trailer = genItems(t, p, 3, o.MaxDepth, 1, 3, "t")
	}
	tpl.TrailerCS = rapid.IntRange(0, 3).Draw(t, "trailerCS") == 0
	return tpl
}

func genItems(t *rapid.T, p *tagPool, depth, maxDepth, lo, hi int, lbl string) []*Node {
	n := rapid.IntRange(lo, hi).Draw(t, lbl+"N")
	out := make([]*Node, 0, n)
	for i := 0; i < n; i++ {
		out = append(out, genNode(t, p, depth, maxDepth, lbl))
	}
	return out
}

func genField(t *rapid.T, p *tagPool, lbl string) *Node {
	return &Node{K: KField, Tag: p.draw(t, lbl+"Tag"), T: VT(rapid.IntRange(0, 6).Draw(t, lbl+"Type"))}
}

func genNode(t *rapid.T, p *tagPool, depth, maxDepth int, lbl string) *Node {
	k := rapid.IntRange(0, 99).Draw(t, lbl+"Kind")
	switch {
	case depth >= maxDepth || k < 62:
		return genField(t, p, lbl)
	case k < 77:
		return &Node{K: KComp, Items: genItems(t, p, depth+1, maxDepth, 0, 4, lbl+"c")}
	default:
		g := &Node{K: KGroup, Tag: p.draw(t, lbl+"Cnt")}
		// the first item of an entry is its delimiter: a field, or a
		// component that starts with a field
		if depth+1 < maxDepth && rapid.IntRange(0, 9).Draw(t, lbl+"FirstComp") < 2 {
			c := &Node{K: KComp, Items: []*Node{genField(t, p, lbl+"d")}}
			c.Items = append(c.Items, genItems(t, p, depth+2, maxDepth, 0, 2, lbl+"dc")...)
			g.Items = append(g.Items, c)
		} else {
			g.Items = append(g.Items, genField(t, p, lbl+"d"))
		}
		g.Items = append(g.Items, genItems(t, p, depth+1, maxDepth, 0, 4, lbl+"g")...)
		return g
	}
}

// weighted alphabet for strings: printable ASCII, '=', '|', digits, NUL,
// 0x02, 0x7f, 0xff, pieces of multi-byte UTF-8; never SOH.
var alphabet = func() []byte {
	var a []byte
	for c := byte(0x20); c < 0x7f; c++ {
		a = append(a, c)
	}
	for i := 0; i < 6; i++ {
		a = append(a, '=', '0', '1', '9', '|', ' ')
	}
	// any byte but SOH may stand in a value: a few control and non-ASCII ones
	for _, c := range []byte{'\r', '\n', '\t', 0x00, 0x02, 0x7f, 0x80, 0xe9, 0xff, ' '} {
		a = append(a, c)
	}
	a = append(a, 0x00, 0x02, 0x7f, 0xff, 0xc3, 0xa9, 0xe2, 0x82, 0xac, 0x80, '\n', '\t')
	return a
}()

func genBytes(t *rapid.T, lbl string, lo, hi int) []byte {
	n := rapid.IntRange(lo, hi).Draw(t, lbl+"Len")
	b := make([]byte, n)
	for i := range b {
		b[i] = rapid.SampledFrom(alphabet).Draw(t, lbl)
	}
	return b
}

// GenStringBytes draws a non-empty, SOH-free byte string; with decoyTags it
// may be (or contain) text that looks like a field of the same template.
func GenStringBytes(t *rapid.T, lbl string, decoyTags []string) (b []byte, decoy bool) {
	k := rapid.IntRange(0, 99).Draw(t, lbl+"Kind")
	switch {
	case len(decoyTags) > 0 && k < 30:
		var out []byte
		if rapid.Bool().Draw(t, lbl+"Pre") {
			out = append(out, genBytes(t, lbl+"PreB", 1, 3)...)
		}
		out = append(out, rapid.SampledFrom(decoyTags).Draw(t, lbl+"DTag")...)
		out = append(out, '=')
		if rapid.Bool().Draw(t, lbl+"Digits") {
			out = append(out, rapid.StringMatching(`[0-9]{1,3}`).Draw(t, lbl+"DVal")...)
		} else {
			out = append(out, genBytes(t, lbl+"DValB", 0, 5)...)
		}
		return out, true
	case k < 33:
		return genBytes(t, lbl, 200, 5000), false
	case k < 45:
		return []byte(rapid.StringMatching(`[0-9]{1,6}`).Draw(t, lbl+"Num")), false
	default:
		return genBytes(t, lbl, 1, 40), false
	}
}

var intEdges = []int64{0, 1, -1, 9, 10, 99, 100, 255, 256, 999, 1000, math.MaxInt32, math.MinInt32, math.MaxInt64, math.MinInt64, math.MaxInt64 - 1}
var uintEdges = []uint64{0, 1, 9, 10, 255, 256, math.MaxInt64, math.MaxInt64 + 1, math.MaxUint64, math.MaxUint64 - 1, math.MaxUint32}
var floatEdges = []float64{0, math.Copysign(0, -1), 1, -1, 1.5, 0.1, 100, 1e21, 1e22, 1e308, math.MaxFloat64, math.SmallestNonzeroFloat64, 123456789.123456789, -0.000001, 1e-7, 3.0000000000000004}

func GenFloatBits(t *rapid.T, lbl string) uint64 {
	if rapid.IntRange(0, 9).Draw(t, lbl+"Edge") < 3 {
		return math.Float64bits(rapid.SampledFrom(floatEdges).Draw(t, lbl+"E"))
	}
	bits := rapid.Uint64().Draw(t, lbl)
	if (bits>>52)&0x7ff == 0x7ff { // NaN/Inf: redraw the exponent field
		e := uint64(rapid.IntRange(0, 2046).Draw(t, lbl+"Exp"))
		bits = bits&^(uint64(0x7ff)<<52) | e<<52
	}
	return bits
}

const (
	minTimeMs = -62135596800000 // 0001-01-01T00:00:00Z
	maxTimeMs = 253402300799999 // 9999-12-31T23:59:59.999Z
)

func GenVal(t *rapid.T, vt VT, lbl string, decoyTags []string) *Val {
	return genVal(t, vt, lbl, decoyTags, false)
}

func genVal(t *rapid.T, vt VT, lbl string, decoyTags []string, small bool) *Val {
	v := &Val{Route: rapid.IntRange(0, NumRoute-1).Draw(t, lbl+"Route")}
	switch vt {
	case TString, TRaw:
		if small {
			if len(decoyTags) > 0 && rapid.IntRange(0, 9).Draw(t, lbl+"SmallDecoy") < 2 {
				v.S = []byte(rapid.SampledFrom(decoyTags).Draw(t, lbl+"DTag") + "=" + rapid.StringMatching(`[0-9]{1,3}`).Draw(t, lbl+"DVal"))
				v.Decoy = true
			} else {
				v.S = genBytes(t, lbl, 1, 8)
			}
		} else {
			v.S, v.Decoy = GenStringBytes(t, lbl, decoyTags)
		}
	case TInt:
		if rapid.IntRange(0, 9).Draw(t, lbl+"Edge") < 4 {
			v.I = rapid.SampledFrom(intEdges).Draw(t, lbl+"E")
		} else {
			v.I = rapid.Int64().Draw(t, lbl)
		}
	case TUint:
		if rapid.IntRange(0, 9).Draw(t, lbl+"Edge") < 4 {
			v.U = rapid.SampledFrom(uintEdges).Draw(t, lbl+"E")
		} else {
			v.U = rapid.Uint64().Draw(t, lbl)
		}
	case TFloat:
		v.F = GenFloatBits(t, lbl)
	case TTime:
		if rapid.IntRange(0, 9).Draw(t, lbl+"Edge") < 2 {
			v.T = rapid.SampledFrom([]int64{minTimeMs, maxTimeMs, 0, -1, 999, 1000, 951782400000, 1709251199999}).Draw(t, lbl+"E")
		} else {
			v.T = rapid.Int64Range(minTimeMs, maxTimeMs).Draw(t, lbl)
		}
		if rapid.IntRange(0, 3).Draw(t, lbl+"SubMs") == 0 {
			v.Sub = rapid.SampledFrom([]int32{1, 499999, 500000, 999999}).Draw(t, lbl+"Sub")
		}
		if rapid.IntRange(0, 3).Draw(t, lbl+"Zoned") == 0 {
			v.Zone = rapid.SampledFrom([]int32{120, -300, 330, 765, -1}).Draw(t, lbl+"Zone")
		}
	case TBool:
		v.B = rapid.Bool().Draw(t, lbl)
	}
	return v
}

// PopOpts steer population.
type PopOpts struct {
	Small        bool // short strings only (1-8 bytes)
	Decoys       bool
	NoTrailerPop bool
	PresentPct   int // probability (percent) that a leaf is populated
	MaxEntries   int
	LooseEntries bool // entries need not populate their first field (blank entries possible); never for parsing checks
	Styles       bool // draw assembly styles (Pop.Build) for components and groups
}

var DefaultPop = PopOpts{Decoys: true, PresentPct: 70, MaxEntries: 4, Styles: true}

func GenCase(t *rapid.T, o Opts, po PopOpts) *Case {
	tpl := GenTemplate(t, o)
	return Populate(t, tpl, po)
}

func Populate(t *rapid.T, tpl Template, po PopOpts) *Case {
	c := &Case{Tpl: tpl}
	var decoys []string
	if po.Decoys {
		decoys = AllTags(&tpl)
	}
	c.Header = genPops(t, tpl.Header, po, decoys, false, 0, "ph")
	c.Body = genPops(t, tpl.Body, po, decoys, false, 0, "pb")
	tp := po
	if po.NoTrailerPop {
		tp.PresentPct = 0
	}
	c.Trailer = genPops(t, tpl.Trailer, tp, decoys, false, 0, "pt")
	if tpl.TrailerCS && rapid.Bool().Draw(t, "trailerCSVal") {
		c.TrailerCSVal = rapid.StringMatching(`[0-9]{3}`).Draw(t, "trailerCSText")
	}
	return c
}

func genPops(t *rapid.T, ns []*Node, po PopOpts, decoys []string, forceFirst bool, depth int, lbl string) []*Pop {
	out := make([]*Pop, len(ns))
	for i, n := range ns {
		force := forceFirst && i == 0
		p := &Pop{}
		switch n.K {
		case KField:
			if force || rapid.IntRange(0, 99).Draw(t, lbl+"Present") >= 100-po.PresentPct {
				p.V = genVal(t, n.T, lbl+"V", decoys, po.Small)
			}
		case KComp:
			if po.Styles {
				p.Build = rapid.SampledFrom([]int{0, 0, 1, 2, 3}).Draw(t, lbl+"CompBuild")
			}
			p.Items = genPops(t, n.Items, po, decoys, force, depth+1, lbl)
		case KGroup:
			if po.Styles {
				p.Build = rapid.SampledFrom([]int{0, 0, 1, 2, 4, 5, 6}).Draw(t, lbl+"GroupBuild")
			}
			max := po.MaxEntries
			if depth > 0 && max > 3 {
				max = 3
			}
			ne := 0
			if po.PresentPct > 0 {
				ne = rapid.IntRange(0, max).Draw(t, lbl+"Entries")
			}
			for e := 0; e < ne; e++ {
				p.Entries = append(p.Entries, genPops(t, n.Items, po, decoys, !po.LooseEntries, depth+1, lbl+"e"))
			}
		}
		out[i] = p
	}
	return out
}

// BodyLenTargets are the BodyLength values straddling digit-count boundaries.
var BodyLenTargets = []int{9, 10, 99, 100, 999, 1000, 9999, 10000}

// Retarget pads one plain String leaf so that the expected BodyLength is
// wantLen (if wantLen>0) and tweaks its last bytes so that the expected
// checksum is wantCS (if wantCS>=0). It reports whether it could.
func Retarget(c *Case, wantLen, wantCS int) bool {
	var leaf *Val
	var find func(ns []*Node, ps []*Pop)
	find = func(ns []*Node, ps []*Pop) {
		for i, n := range ns {
			if leaf != nil {
				return
			}
			p := ps[i]
			switch n.K {
			case KField:
				if (n.T == TString || n.T == TRaw) && p.V != nil && !p.V.Decoy {
					leaf = p.V
				}
			case KComp:
				find(n.Items, p.Items)
			case KGroup:
				for _, e := range p.Entries {
					find(n.Items, e)
				}
			}
		}
	}
	find(c.Tpl.Body, c.Body)
	find(c.Tpl.Header, c.Header)
	if leaf == nil {
		return false
	}
	withTrailer := true
	bodyLen := func() int {
		m := Expected(c, withTrailer)
		toks, _ := ref.Tokenize(m)
		n, _ := strconv.Atoi(toks[1].Val)
		return n
	}
	if wantLen > 0 {
		cur := bodyLen()
		newLen := len(leaf.S) + wantLen - cur
		if newLen < 2 {
			return false
		}
		s := make([]byte, newLen)
		for i := range s {
			s[i] = 'a' + byte(i%26)
		}
		copy(s, leaf.S)
		if len(leaf.S) > newLen {
			copy(s, leaf.S[:newLen])
		}
		leaf.S = s
	}
	if wantCS >= 0 {
		if len(leaf.S) < 2 {
			leaf.S = append(leaf.S, 'x')
			if wantLen > 0 {
				return false
			}
		}
		m := Expected(c, withTrailer)
		toks, _ := ref.Tokenize(m)
		cur, _ := strconv.Atoi(toks[len(toks)-1].Val)
		d := (wantCS - cur + 256) % 256
		last := len(leaf.S) - 1
		nb := byte((int(leaf.S[last]) + d) % 256)
		if nb == ref.SOH {
			// split the adjustment over two bytes
			prev := leaf.S[last-1]
			np := prev + 1
			if np == ref.SOH {
				np = prev + 2
				nb = nb - 2
			} else {
				nb = nb - 1
			}
			if nb == ref.SOH { // cannot happen for nb-1 (=0) or nb-2 (=255)
				return false
			}
			leaf.S[last-1] = np
		}
		leaf.S[last] = nb
	}
	return true
}
