// Package evid collects what a check actually covered (cases, distinct
// non-trivial fingerprints, class histograms, samples, known findings hit)
// and writes it as one JSON document per shard; the driver merges shards.
package evid

import (
	"encoding/json"
	"fmt"
	"hash/fnv"
	"os"
	"sort"
	"strings"
	"sync"
)

type Rec struct {
	mu       sync.Mutex
	ID       string
	evals    int64
	nontriv  map[uint64]struct{}
	hist     map[string]int64
	samples  []any
	maxSamp  int
	known    map[string]int64
	knownMsg map[string]string
	extra    map[string]int64
}

func New(id string) *Rec {
	return &Rec{ID: id, nontriv: map[uint64]struct{}{}, hist: map[string]int64{}, maxSamp: 4,
		known: map[string]int64{}, knownMsg: map[string]string{}, extra: map[string]int64{}}
}

// FP hashes a canonical encoding of a case.
func FP(parts ...[]byte) uint64 {
	h := fnv.New64a()
	for _, p := range parts {
		h.Write(p)
		h.Write([]byte{0xff})
	}
	return h.Sum64()
}

func FPs(s string) uint64 { return FP([]byte(s)) }

// Case counts one evaluated case; fp is remembered when nontrivial.
func (r *Rec) Case(fp uint64, nontrivial bool) {
	r.mu.Lock()
	r.evals++
	if nontrivial {
		r.nontriv[fp] = struct{}{}
	}
	r.mu.Unlock()
}

// Evals adds n evaluations that are not cases of their own (e.g. the variants
// of an enumerated neighbourhood).
func (r *Rec) Evals(n int64) {
	r.mu.Lock()
	r.evals += n
	r.mu.Unlock()
}

func (r *Rec) Hist(class string) { r.HistN(class, 1) }

func (r *Rec) HistN(class string, n int64) {
	r.mu.Lock()
	r.hist[class] += n
	r.mu.Unlock()
}

func (r *Rec) Extra(key string, n int64) {
	r.mu.Lock()
	r.extra[key] += n
	r.mu.Unlock()
}

// Sample keeps the first few samples offered.
func (r *Rec) Sample(v any) {
	r.mu.Lock()
	if len(r.samples) < r.maxSamp {
		r.samples = append(r.samples, v)
	}
	r.mu.Unlock()
}

func (r *Rec) WantSample() bool {
	r.mu.Lock()
	defer r.mu.Unlock()
	return len(r.samples) < r.maxSamp
}

func (r *Rec) KnownHit(key, msg string) {
	r.mu.Lock()
	r.known[key]++
	if _, ok := r.knownMsg[key]; !ok {
		r.knownMsg[key] = msg
	}
	r.mu.Unlock()
}

type shardDoc struct {
	ID       string            `json:"id"`
	Evals    int64             `json:"evals"`
	Nontriv  []uint64          `json:"nontriv"`
	Hist     map[string]int64  `json:"hist"`
	Samples  []any             `json:"samples"`
	Known    map[string]int64  `json:"known"`
	KnownMsg map[string]string `json:"known_msg"`
	Extra    map[string]int64  `json:"extra"`
}

// Flush writes the shard document into the directory VERIF_OUT (if set).
func (r *Rec) Flush() {
	dir := os.Getenv("VERIF_OUT")
	if dir == "" {
		return
	}
	path := fmt.Sprintf("%s/shard-%d-%s.json", dir, os.Getpid(), strings.ReplaceAll(r.ID, "/", "_"))
	r.mu.Lock()
	defer r.mu.Unlock()
	d := shardDoc{ID: r.ID, Evals: r.evals, Hist: r.hist, Samples: r.samples, Known: r.known, KnownMsg: r.knownMsg, Extra: r.extra}
	for k := range r.nontriv {
		d.Nontriv = append(d.Nontriv, k)
	}
	sort.Slice(d.Nontriv, func(i, j int) bool { return d.Nontriv[i] < d.Nontriv[j] })
	b, err := json.Marshal(d)
	if err != nil {
		panic(err)
	}
	tmp := path + ".tmp"
	if err := os.WriteFile(tmp, b, 0o644); err != nil {
		panic(err)
	}
	_ = os.Rename(tmp, path)
}
