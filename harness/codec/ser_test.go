package codec

import (
	"bytes"
	"fmt"
	"testing"

	"verif/harness/build"
	"verif/harness/evid"
	"verif/harness/gen"
	"verif/harness/pbt"
	"verif/harness/ref"
)

// ---------- C01: BodyLength and CheckSum of every serialized message ----------

func checkC01(sc *SerCase, rec *evid.Rec) (vs []pbt.Violation) {
	m, err := build.Message(&sc.Case)
	if err != nil {
		return []pbt.Violation{pbt.V("build", "cannot build the message: %v", err)}
	}
	// the slices ToBytes returned, and what they held at that moment: what the
	// caller was given (and may have queued for the wire) is a serialized message
	// too and must stay one when the object is serialized again later
	var given, held [][]byte
	one := func(stage string) []byte {
		b, err := m.ToBytes()
		if err != nil {
			vs = append(vs, pbt.V("tobytes-error", "%s: ToBytes: %v", stage, err))
			return nil
		}
		given = append(given, b)
		b = append([]byte(nil), b...)
		held = append(held, b)
		if err := ref.Framed(b, sc.Tpl.Tags); err != nil {
			vs = append(vs, pbt.V("framing:"+ref.Class(err), "%s: %v in %s", stage, err, ref.Show(b)))
		}
		return b
	}
	b1 := one("first serialization")
	if b1 == nil {
		return vs
	}
	b1again := one("repeated serialization")
	if b1again != nil && !bytes.Equal(b1, b1again) {
		vs = append(vs, pbt.V("unstable", "two serializations of an unchanged message differ"))
	}
	toks, _ := ref.Tokenize(b1)
	st := gen.CaseStats(&sc.Case)
	if len(toks) >= 4 {
		bl, cs := toks[1].Val, toks[len(toks)-1].Val
		rec.Hist(fmt.Sprintf("bodylength-digits=%d", len(bl)))
		rec.Hist(csClass(cs))
		if cs == "000" || cs == "255" {
			rec.Hist("cs=" + cs)
		}
		for _, edge := range gen.BodyLenTargets {
			if bl == fmt.Sprint(edge) {
				rec.Hist("bodylength=" + bl)
			}
		}
		if len(sc.Tpl.Header) == 0 || len(gen.PopShape(sc.Tpl.Header, sc.Header)) == 0 {
			rec.Hist("empty-header")
		}
		if sc.Tpl.Tags != ref.StdTags {
			rec.Hist("custom-framing-tags")
		}
		if sc.Tpl.Fix44 != "" {
			rec.Hist("fix44:" + sc.Tpl.Fix44)
		}
		nontrivial := st.Populated >= 1
		fp := evid.FPs(gen.Shape(sc.Tpl.Header) + "|" + gen.Shape(sc.Tpl.Body) + "|" + gen.PopShape(sc.Tpl.Header, sc.Header) + "|" + gen.PopShape(sc.Tpl.Body, sc.Body) + "|" + fmt.Sprint(len(bl)) + csClass(cs))
		rec.Case(fp, nontrivial)
	} else {
		rec.Case(0, false)
	}
	if rec.WantSample() && st.Populated >= 2 {
		rec.Sample(sampleOf(sc, b1))
	}
	// metamorphic step: change the same object, serialize again
	what, err := applyMut(m, sc)
	if err != nil {
		vs = append(vs, pbt.V("mutation", "%v", err))
		return vs
	}
	if what != "none" {
		rec.Hist("mutation:" + what)
		one("serialization after " + what)
	}
	if sc.ReparseType != "" && len(vs) == 0 && len(held) > 0 {
		// the object is used to receive a message of another type (the decoder takes the
		// MsgType from the wire) and is serialized again: what it now holds is that message
		last := held[len(held)-1]
		if ts, err := ref.Tokenize(last); err == nil && len(ts) >= 4 {
			wire := ref.Assemble(sc.Tpl.Tags, sc.Tpl.Begin, sc.ReparseType, ts[3:len(ts)-1])
			if perr, pan := parse(false, m, wire); pan == nil && perr == nil {
				rec.Hist("reparsed-with-another-msgtype")
				one("serialization after a message of type " + sc.ReparseType + " was parsed into the object")
			} else {
				rec.Hist("reparse-refused")
			}
		}
	}
	for i := range given {
		if !bytes.Equal(given[i], held[i]) {
			rec.Hist("earlier-output-changed")
			vs = append(vs, pbt.V("earlier-output-overwritten", "the bytes returned by serialization #%d changed when the same object was serialized again (%s): were %s, now %s", i+1, what, ref.Show(held[i]), ref.Show(given[i])))
			break
		}
	}
	return vs
}

func TestC01(t *testing.T) {
	rec := evid.New("C01")
	pbt.Run(t, "C01", rec, genSerCase, checkC01)
}

// ---------- C17: exactly the populated fields, once each, in template order ----------

func checkC17(sc *SerCase, rec *evid.Rec) (vs []pbt.Violation) {
	m, err := build.Message(&sc.Case)
	if err != nil {
		return []pbt.Violation{pbt.V("build", "cannot build the message: %v", err)}
	}
	judge := func(stage string) []byte {
		b, err := m.ToBytes()
		if err != nil {
			vs = append(vs, pbt.V("tobytes-error", "%s: ToBytes: %v", stage, err))
			return nil
		}
		b = append([]byte(nil), b...)
		toks, err := ref.Tokenize(b)
		if err != nil || len(toks) < 4 {
			vs = append(vs, pbt.V("not-tokenizable", "%s: %v: %s", stage, err, ref.Show(b)))
			return b
		}
		tg := sc.Tpl.Tags
		if toks[0] != (ref.Tok{Tag: tg.BeginString, Val: sc.Tpl.Begin, HasEq: true}) || toks[1].Tag != tg.BodyLength ||
			toks[2] != (ref.Tok{Tag: tg.MsgType, Val: sc.Tpl.MsgType, HasEq: true}) || toks[len(toks)-1].Tag != tg.CheckSum {
			vs = append(vs, pbt.V("framing-fields", "%s: framing fields wrong in %s", stage, ref.Show(b)))
			return b
		}
		inner := toks[3 : len(toks)-1]
		h, bd, tr := gen.Wire(&sc.Case)
		full := append(append(append([]gen.Leaf{}, h...), bd...), tr...)
		i, kind := tokensMatch(inner, full)
		if i < 0 {
			return b
		}
		if len(tr) > 0 {
			noTr := append(append([]gen.Leaf{}, h...), bd...)
			if j, _ := tokensMatch(inner, noTr); j < 0 {
				vs = append(vs, pbt.V("trailer-fields-dropped", "%s: %d populated trailer field(s) (first: tag %s) are not on the wire: %s", stage, len(tr), tr[0].Tok.Tag, ref.Show(b)))
				return b
			}
		}
		switch kind {
		case "missing":
			vs = append(vs, pbt.V("missing:"+leafKey(full[i]), "%s: populated field %s=%q (position %d) is not on the wire: %s", stage, full[i].Tok.Tag, full[i].Tok.Val, i, ref.Show(b)))
		case "extra":
			vs = append(vs, pbt.V("extra", "%s: wire field %d (%s=%q) is not a populated template leaf at that position: %s", stage, i, inner[i].Tag, inner[i].Val, ref.Show(b)))
		case "text":
			vs = append(vs, pbt.V("text:"+leafKey(full[i]), "%s: field %s carries %q, canonical text is %q", stage, full[i].Tok.Tag, inner[i].Val, full[i].Tok.Val))
		}
		return b
	}
	b1 := judge("serialization")
	st := gen.CaseStats(&sc.Case)
	rec.Case(evid.FPs(gen.Shape(sc.Tpl.Header)+"|"+gen.Shape(sc.Tpl.Body)+"|"+gen.Shape(sc.Tpl.Trailer)+"|"+gen.PopShape(sc.Tpl.Header, sc.Header)+"|"+gen.PopShape(sc.Tpl.Body, sc.Body)+"|"+gen.PopShape(sc.Tpl.Trailer, sc.Trailer)),
		len(st.Types) >= 2 && st.Unpopulated >= 1)
	h, bd, tr := gen.Wire(&sc.Case)
	for _, part := range [][]gen.Leaf{h, bd, tr} {
		for _, l := range part {
			if l.Count {
				rec.Hist("leaf:count:" + l.Part)
			} else {
				rec.Hist("leaf:" + leafKey(l))
			}
		}
	}
	if rec.WantSample() && len(st.Types) >= 3 && b1 != nil {
		rec.Sample(sampleOf(sc, b1))
	}
	// "populated ... by parsing": parse the bytes into an empty message of the
	// same template and judge what THAT message puts on the wire
	if b1 != nil && len(vs) == 0 && gen.DuplicateTag(&sc.Tpl) == "" && !hasBlankEntry(&sc.Case) {
		if e, err := build.Empty(&sc.Tpl); err == nil {
			if perr, pan := parse(true, e, append([]byte(nil), b1...)); perr == nil && pan == nil {
				keep := m
				m = e
				judge("serialization of the message parsed from these bytes")
				m = keep
				rec.Hist("parsed-then-serialized")
			}
		}
	}
	// standalone serializers
	standalone := func(name string, got []byte, exp []gen.Leaf) {
		var toks []ref.Tok
		if len(got) > 0 {
			var err error
			toks, err = ref.Tokenize(append(append([]byte(nil), got...), ref.SOH))
			if err != nil {
				vs = append(vs, pbt.V("standalone:"+name, "%v", err))
				return
			}
		}
		if i, kind := tokensMatch(toks, exp); i >= 0 {
			vs = append(vs, pbt.V("standalone:"+name+":"+kind, "%s.ToBytes position %d %s: %s", name, i, kind, ref.Show(got)))
		}
	}
	standalone("header-component", m.Header().ToBytes(), h)
	standalone("body-items", m.Body().ToBytes(), bd)
	if !(sc.Tpl.TrailerCS && sc.TrailerCSVal != "") { // the component on its own legitimately includes its own CheckSum item
		standalone("trailer-component", m.Trailer().ToBytes(), tr)
	}
	// metamorphic step on the same object
	what, err := applyMut(m, sc)
	if err != nil {
		vs = append(vs, pbt.V("mutation", "%v", err))
		return vs
	}
	if what != "none" {
		rec.Hist("mutation:" + what)
		judge("serialization after " + what)
	}
	return vs
}

func TestC17(t *testing.T) {
	rec := evid.New("C17")
	pbt.Run(t, "C17", rec, genSerCase, checkC17)
}

// hasBlankEntry reports whether some group entry lacks its first field (such
// messages are outside what the parser is required to read back).
func hasBlankEntry(c *gen.Case) bool {
	h, b, tr := gen.Wire(c)
	leaves := append(append(h, b...), tr...)
	for i, l := range leaves {
		if l.Count {
			n := 0
			fmt.Sscan(l.Tok.Val, &n)
			firsts := 0
			for _, x := range leaves[i+1:] {
				if x.Depth <= l.Depth {
					break
				}
				if x.First && x.Depth == l.Depth+1 {
					firsts++
				}
			}
			if firsts != n {
				return true
			}
		}
	}
	return false
}
