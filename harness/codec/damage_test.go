package codec

import (
	"fmt"
	"github.com/b2broker/simplefix-go/fix/encoding"
	"strconv"
	"sync"
	"sync/atomic"
	"testing"

	"pgregory.net/rapid"

	"verif/harness/build"
	"verif/harness/evid"
	"verif/harness/gen"
	"verif/harness/pbt"
	"verif/harness/ref"
)

// ---------- C03: damaged messages are rejected ----------

// C03Case is a base message (a small populated template). Adversarial bases
// carry a String value "..X<CheckSumTag>=ddd" and a padding byte chosen so
// that replacing X by SOH yields a message whose *first* CheckSum-looking
// field is self-consistent while its genuine trailing CheckSum is wrong.
type C03Case struct {
	gen.Case
	Adversarial bool `json:"adversarial"`
	NonASCII    bool `json:"non_ascii"`
	Stride      int  `json:"stride"`               // 1 = complete neighbourhood
	EdgeBlank   bool `json:"edge_blank,omitempty"` // the last field before the CheckSum ends in a blank
}

func freshTag(used map[string]bool, from int) string {
	for n := from; ; n++ {
		s := strconv.Itoa(n)
		if !used[s] {
			used[s] = true
			return s
		}
	}
}

func genC03(t *rapid.T) *C03Case {
	o := gen.Opts{MaxDepth: 2, MaxItems: 3}
	po := gen.PopOpts{Small: true, Decoys: true, PresentPct: 55, MaxEntries: 2}
	cc := &C03Case{Stride: 1}
	if rapid.IntRange(0, 9).Draw(t, "source") < 1 {
		tpl, _ := pickFix44(t)
		po.PresentPct = 8
		cc.Case = *gen.Populate(t, tpl, po)
	} else {
		cc.Case = *gen.GenCase(t, o, po)
	}
	if cc.Tpl.Fix44 == "" && rapid.IntRange(0, 9).Draw(t, "nonASCII") < 3 {
		// bytes >= 0x80 (lone Latin-1 bytes, UTF-8 sequences): a checksum that
		// sums anything but bytes shows here
		used := map[string]bool{}
		for _, x := range gen.AllTags(&cc.Tpl) {
			used[x] = true
		}
		v := &gen.Val{Route: gen.RCtor, S: []byte(rapid.SampledFrom([]string{"caf\xe9", "Gr\xc3\xbc\xc3\x9fe", "100\xe2\x82\xac", "\xff\xfe", "\xe9\xe8"}).Draw(t, "nonASCIIVal"))}
		cc.Tpl.Body = append(cc.Tpl.Body, &gen.Node{K: gen.KField, Tag: freshTag(used, 6100), T: gen.TString})
		cc.Body = append(cc.Body, &gen.Pop{V: v})
		cc.NonASCII = true
	}
	if cc.Tpl.Fix44 == "" && rapid.IntRange(0, 9).Draw(t, "adversarial") < 4 {
		used := map[string]bool{}
		for _, x := range gen.AllTags(&cc.Tpl) {
			used[x] = true
		}
		x := byte(rapid.SampledFrom([]int{'Z', ' ', '=', 0, 2, 0x7f, 0xff, '0'}).Draw(t, "advX"))
		ddd := rapid.IntRange(0, 255).Draw(t, "advDDD")
		pre := rapid.StringMatching(`[a-z]{0,3}`).Draw(t, "advPre")
		adv := &gen.Val{Route: gen.RCtor, Decoy: true}
		adv.S = append([]byte(pre), x)
		adv.S = append(adv.S, []byte(fmt.Sprintf("%s=%03d", cc.Tpl.Tags.CheckSum, ddd))...)
		pad := &gen.Val{Route: gen.RCtor, S: []byte("pad0")}
		// pad first, so that Retarget (first plain String leaf of the body) may pick it
		cc.Tpl.Body = append([]*gen.Node{{K: gen.KField, Tag: freshTag(used, 5000), T: gen.TString}}, cc.Tpl.Body...)
		cc.Body = append([]*gen.Pop{{V: pad}}, cc.Body...)
		cc.Tpl.Body = append(cc.Tpl.Body, &gen.Node{K: gen.KField, Tag: freshTag(used, 5800), T: gen.TString})
		cc.Body = append(cc.Body, &gen.Pop{V: adv})
		want := (ddd + int(x) - 1 + 256) % 256
		cc.Adversarial = gen.Retarget(&cc.Case, 0, want)
	}
	if rapid.IntRange(0, 4).Draw(t, "edgeBlank") == 0 {
		// the field right before the CheckSum ends in (or the first value begins with) a blank:
		// a checksum that normalises its input before summing shows when that blank is damaged
		h, b, tr := gen.Wire(&cc.Case)
		all := append(append(h, b...), tr...)
		if n := len(all); n > 0 && !cc.Adversarial {
			if l := all[n-1]; l.V != nil && (l.T == gen.TString || l.T == gen.TRaw) && !l.V.Decoy {
				l.V.S = append(l.V.S, ' ')
				cc.EdgeBlank = true
			}
		}
	}
	return cc
}

type damageStats struct {
	variants, stillFramed, accepted, panics int64
}

// tryVariant offers one damaged byte string to both parser entry points.
func tryVariant(cc *C03Case, v []byte, kind string, pos int, st *damageStats, vs *[]pbt.Violation) {
	st.variants++
	framedErr := ref.FramedNoType(v, cc.Tpl.Tags)
	if framedErr == nil {
		st.stillFramed++
	}
	for _, md := range modes {
		e, err := build.Empty(&cc.Tpl)
		if err != nil {
			*vs = append(*vs, pbt.V("build", "%v", err))
			return
		}
		perr, pan := parse(md.strict, e, v)
		if pan != nil {
			st.panics++ // not "accepted"; panics are C11's business
			continue
		}
		if perr == nil {
			st.accepted++
			if framedErr != nil && len(*vs) < 3 {
				*vs = append(*vs, pbt.V("accepted-damaged:"+kind, "%s parser accepts the %s at byte %d although the result is not a consistently framed message (%v): %s", md.name, kind, pos, framedErr, ref.Show(v)))
			}
		}
	}
	if framedErr != nil && st.variants%8 == 0 && len(*vs) == 0 {
		// an unmarshaller written as a literal, without the optional required-field Validator: the
		// integrity check does not depend on it (an intact message panics there on a nil Validator,
		// which is why only damaged ones are offered)
		for _, strict := range []bool{true, false} {
			e, err := build.Empty(&cc.Tpl)
			if err != nil {
				return
			}
			perr, pan := func() (err error, pan any) {
				defer func() { pan = recover() }()
				return encoding.DefaultUnmarshaller{Strict: strict}.Unmarshal(e, v), nil
			}()
			if pan == nil && perr == nil {
				*vs = append(*vs, pbt.V("accepted-damaged:no-validator:"+kind, "DefaultUnmarshaller{Strict: %v} without a Validator accepts the %s at byte %d (%v): %s", strict, kind, pos, framedErr, ref.Show(v)))
				return
			}
		}
	}
}

func checkC03(cc *C03Case, rec *evid.Rec) (vs []pbt.Violation) {
	m, err := build.Message(&cc.Case)
	if err != nil {
		return []pbt.Violation{pbt.V("build", "cannot build the message: %v", err)}
	}
	base, err := m.ToBytes()
	if err != nil {
		return []pbt.Violation{pbt.V("tobytes-error", "%v", err)}
	}
	base = append([]byte(nil), base...)
	if err := ref.Framed(base, cc.Tpl.Tags); err != nil {
		// the serializer's own output is not consistently framed (C01's business) - unless the
		// parser takes it: then the integrity check agrees with the same wrong sum or length
		var s0 damageStats
		tryVariant(cc, base, "none (the library's own serialization, which is not consistently framed)", -1, &s0, &vs)
		rec.Hist("skipped:base-not-framed")
		return vs
	}
	stride := cc.Stride
	if len(base) > 260 {
		stride = len(base)/130 + 1
	}
	var st damageStats
	buf := make([]byte, 0, len(base)+1)
	// the base itself must be accepted, otherwise rejections below mean nothing
	{
		var s0 damageStats
		var v0 []pbt.Violation
		tryVariant(cc, base, "none", -1, &s0, &v0)
		if s0.accepted != 2 {
			rec.Hist("skipped:base-rejected") // C02's business
			return nil
		}
	}
	for pos := 0; pos < len(base) && len(vs) == 0; pos += stride {
		// substitutions: all 255 other values
		for b := 0; b < 256; b++ {
			if byte(b) == base[pos] {
				continue
			}
			buf = append(buf[:0], base...)
			buf[pos] = byte(b)
			tryVariant(cc, buf[:len(base):len(base)], "substitution", pos, &st, &vs)
		}
		// deletion
		buf = append(buf[:0], base[:pos]...)
		buf = append(buf, base[pos+1:]...)
		tryVariant(cc, buf[:len(base)-1:len(base)-1], "deletion", pos, &st, &vs)
		// proper prefix of length pos (includes the empty one)
		tryVariant(cc, append([]byte(nil), base[:pos]...), "truncation", pos, &st, &vs)
		// interior insertions before pos (pos >= 1)
		if pos >= 1 {
			for b := 0; b < 256; b++ {
				buf = append(buf[:0], base[:pos]...)
				buf = append(buf, byte(b))
				buf = append(buf, base[pos:]...)
				tryVariant(cc, buf[:len(base)+1:len(base)+1], "insertion", pos, &st, &vs)
			}
		}
	}
	rec.Evals(st.variants)
	rec.Extra("variants", st.variants)
	rec.Extra("still_framed_variants", st.stillFramed)
	rec.Extra("accepted_parses", st.accepted)
	rec.Extra("panicking_parses", st.panics)
	rec.Extra("base_messages", 1)
	if stride == 1 {
		rec.Extra("complete_neighbourhoods", 1)
	} else {
		rec.Extra("strided_neighbourhoods", 1)
	}
	rec.Case(evid.FP(base), stride == 1)
	if cc.Adversarial {
		rec.Hist("adversarial-base")
	}
	if cc.NonASCII {
		rec.Hist("non-ascii-base")
	}
	if cc.EdgeBlank {
		rec.Hist("blank-right-before-the-checksum")
	}
	rec.Hist(fmt.Sprintf("base-length=%d0s", len(base)/10))
	if cc.Tpl.Tags != ref.StdTags {
		rec.Hist("custom-framing-tags")
	}
	if rec.WantSample() {
		rec.Sample(map[string]any{"base": ref.Show(base), "adversarial": cc.Adversarial, "variants": st.variants, "still_framed": st.stillFramed})
	}
	return vs
}

func TestC03(t *testing.T) {
	rec := evid.New("C03")
	pbt.Run(t, "C03", rec, genC03, checkC03)
}

// ---- C03 under concurrency: the integrity check is sound whatever else the process parses or serializes meanwhile ----
//
// TestC03 offers the variants one after the other. An application parses on one
// goroutine per connection and serializes on others, so the same neighbourhood
// is offered here by 4 goroutines while 3 more keep parsing and serializing the
// intact message (fresh objects per goroutine: nothing is shared by the harness).
// The oracle is the same: a variant that is not a consistently framed message
// must not be accepted.

func checkC03Par(cc *C03Case, rec *evid.Rec) (vs []pbt.Violation) {
	m, err := build.Message(&cc.Case)
	if err != nil {
		return []pbt.Violation{pbt.V("build", "cannot build the message: %v", err)}
	}
	base, err := m.ToBytes()
	if err != nil {
		return []pbt.Violation{pbt.V("tobytes-error", "%v", err)}
	}
	base = append([]byte(nil), base...)
	if err := ref.Framed(base, cc.Tpl.Tags); err != nil {
		rec.Hist("skipped:base-not-framed")
		return nil
	}
	{
		var s0 damageStats
		var v0 []pbt.Violation
		tryVariant(cc, base, "none", -1, &s0, &v0)
		if s0.accepted != 2 {
			rec.Hist("skipped:base-rejected")
			return nil
		}
	}
	type variant struct {
		b    []byte
		kind string
		pos  int
	}
	var variants []variant
	stride := len(base)/100 + 1
	for pos := 0; pos < len(base); pos += stride {
		for _, x := range []byte{base[pos] ^ 1, base[pos] ^ 0x80, '0', 1} {
			if x == base[pos] {
				continue
			}
			v := append([]byte(nil), base...)
			v[pos] = x
			variants = append(variants, variant{v, "substitution", pos})
		}
		v := append(append([]byte(nil), base[:pos]...), base[pos+1:]...)
		variants = append(variants, variant{v, "deletion", pos})
		if pos >= 1 {
			v := append(append(append([]byte(nil), base[:pos]...), '7'), base[pos:]...)
			variants = append(variants, variant{v, "insertion", pos})
		}
	}
	const workers, background = 4, 3
	stop := make(chan struct{})
	var bg, wg sync.WaitGroup
	var bgParses, bgRejected atomic.Int64
	for g := 0; g < background; g++ {
		own, err := build.Message(&cc.Case)
		if err != nil {
			continue
		}
		bg.Add(1)
		go func() {
			defer bg.Done()
			for {
				select {
				case <-stop:
					return
				default:
				}
				if e, err := build.Empty(&cc.Tpl); err == nil {
					if perr, pan := parse(true, e, base); perr != nil || pan != nil {
						bgRejected.Add(1)
					}
					bgParses.Add(1)
				}
				_, _ = own.ToBytes()
			}
		}()
	}
	stats := make([]damageStats, workers)
	found := make([][]pbt.Violation, workers)
	for w := 0; w < workers; w++ {
		w := w
		wg.Add(1)
		go func() {
			defer wg.Done()
			for round := 0; round < 3; round++ {
				for k := w; k < len(variants); k += workers {
					tryVariant(cc, variants[k].b, variants[k].kind, variants[k].pos, &stats[w], &found[w])
				}
			}
		}()
	}
	wg.Wait()
	close(stop)
	bg.Wait()
	var st damageStats
	for w := range stats {
		st.variants += stats[w].variants
		st.stillFramed += stats[w].stillFramed
		st.accepted += stats[w].accepted
		st.panics += stats[w].panics
		for _, v := range found[w] {
			v.Key = "parallel:" + v.Key
			vs = append(vs, v)
		}
	}
	if n := bgRejected.Load(); n > 0 {
		rec.Hist("parallel:intact-message-rejected-meanwhile")
	}
	rec.Evals(st.variants)
	rec.Extra("parallel_variants", st.variants)
	rec.Extra("parallel_background_parses", bgParses.Load())
	rec.Case(evid.FP(base), bgParses.Load() > 0)
	rec.Hist("parallel:engine")
	if rec.WantSample() {
		rec.Sample(map[string]any{"engine": "parallel", "base": ref.Show(base), "variants": st.variants, "background_parses_meanwhile": bgParses.Load()})
	}
	if len(vs) > 3 {
		vs = vs[:3]
	}
	return vs
}

func TestC03Parallel(t *testing.T) {
	rec := evid.New("C03/parallel")
	pbt.Run(t, "C03", rec, genC03, checkC03Par)
}
