package codec

import (
	"bytes"
	"fmt"
	"sort"
	"strconv"
	"testing"

	"github.com/b2broker/simplefix-go/fix"
	"github.com/b2broker/simplefix-go/fix/encoding"
	"pgregory.net/rapid"

	"verif/harness/build"
	"verif/harness/evid"
	"verif/harness/gen"
	"verif/harness/pbt"
	"verif/harness/ref"
)

// parse runs one of the two parser entry points under recover.
func parse(strict bool, m *fix.Message, b []byte) (err error, panicked any) {
	defer func() {
		if r := recover(); r != nil {
			panicked = r
		}
	}()
	if strict {
		return encoding.Unmarshal(m, b), nil
	}
	u := encoding.DefaultUnmarshaller{Strict: false, Validator: encoding.DefaultValidator{}}
	return u.Unmarshal(m, b), nil
}

var modes = []struct {
	name   string
	strict bool
}{{"strict", true}, {"non-strict", false}}

// parseAndCompare parses b into a fresh message of the case's template with
// both entry points and compares every leaf with the model.
func parseAndCompare(c *gen.Case, b []byte, reserialize bool) (vs []pbt.Violation) {
	ctx := ""
	if gen.CaseStats(c).Decoys > 0 {
		ctx = ":decoy"
	}
	for _, md := range modes {
		e, err := build.Empty(&c.Tpl)
		if err != nil {
			return []pbt.Violation{pbt.V("build", "%v", err)}
		}
		perr, pan := parse(md.strict, e, append([]byte(nil), b...))
		if pan != nil {
			vs = append(vs, pbt.V("parse-panic"+ctx, "%s parser panicked on a valid message: %v: %s", md.name, pan, ref.Show(b)))
			continue
		}
		if perr != nil {
			vs = append(vs, pbt.V("parse-error"+ctx, "%s parser rejects a valid message: %v: %s", md.name, perr, ref.Show(b)))
			continue
		}
		if c.Tpl.Fix44 == "" {
			if what := build.BeyondBody(e); what != "" {
				vs = append(vs, pbt.V("parser-wrote-beyond-the-body", "%s parser: the body slice the application handed to the message has spare capacity, and the parse stored something there (%s): whatever else lives in that array (another message definition cut from the same table) is overwritten", md.name, what))
				continue
			}
		}
		var diffs []build.Diff
		diffs = append(diffs, build.Compare(e.Header().Items(), c.Tpl.Header, c.Header, "header")...)
		diffs = append(diffs, build.Compare(e.Body(), c.Tpl.Body, c.Body, "body")...)
		diffs = append(diffs, build.Compare(build.TrailerItems(e, &c.Tpl), c.Tpl.Trailer, c.Trailer, "trailer")...)
		for _, d := range diffs {
			key := "parsed-" + d.Class + ctx
			vs = append(vs, pbt.V(key, "%s parser: %s: %s (message %s)", md.name, d.Path, d.Msg, ref.Show(b)))
			break
		}
		if len(diffs) == 0 && reserialize {
			b2, err := e.ToBytes()
			if err != nil {
				vs = append(vs, pbt.V("reserialize-error", "%s: ToBytes of the parsed message: %v", md.name, err))
			} else if !bytes.Equal(b2, b) {
				vs = append(vs, pbt.V("reserialize-differs"+ctx, "%s: parsed message serializes to %s, original %s", md.name, ref.Show(b2), ref.Show(b)))
			}
		}
	}
	return vs
}

// ---------- C02: parsing inverts serialization ----------

func genC02(t *rapid.T) *gen.Case {
	po := gen.DefaultPop
	if rapid.IntRange(0, 99).Draw(t, "source") < 25 {
		tpl, _ := pickFix44(t)
		po.PresentPct = rapid.SampledFrom([]int{10, 30, 60}).Draw(t, "pct")
		return gen.Populate(t, tpl, po)
	}
	return gen.GenCase(t, gen.DefaultOpts, po)
}

func checkC02(c *gen.Case, rec *evid.Rec) (vs []pbt.Violation) {
	if d := gen.DuplicateTag(&c.Tpl); d != "" {
		rec.Hist("skipped:duplicate-tag")
		return nil
	}
	m, err := build.Message(c)
	if err != nil {
		return []pbt.Violation{pbt.V("build", "cannot build the message: %v", err)}
	}
	b, err := m.ToBytes()
	if err != nil {
		return []pbt.Violation{pbt.V("tobytes-error", "%v", err)}
	}
	b = append([]byte(nil), b...)
	vs = parseAndCompare(c, b, true)
	st := gen.CaseStats(c)
	nontrivial := st.MaxEntries >= 2 || len(st.Types) >= 3 || st.Decoys >= 1
	rec.Case(evid.FP(b), nontrivial)
	rec.Hist(fmt.Sprintf("depth=%d", st.Depth))
	rec.Hist(fmt.Sprintf("max-entries=%d", st.MaxEntries))
	if st.Decoys > 0 {
		rec.Hist("with-decoy")
	}
	for vt := range st.Types {
		rec.Hist("type:" + vt.String())
	}
	if c.Tpl.Fix44 != "" {
		rec.Hist("fix44:" + c.Tpl.Fix44)
	}
	if rec.WantSample() && st.MaxEntries >= 2 && st.Depth >= 2 {
		rec.Sample(sampleOf(&SerCase{Case: *c}, b))
	}
	return vs
}

func TestC02(t *testing.T) {
	rec := evid.New("C02")
	pbt.Run(t, "C02", rec, genC02, checkC02)
}

// ---------- C18: a tag is recognised only at a field boundary ----------

// Foreign is a field that is not part of the template, inserted into the
// REF-assembled message before token Pos of the field list.
type Foreign struct {
	Pos int    `json:"pos"`
	Tag string `json:"tag"`
	Val []byte `json:"val"`
	Rel string `json:"rel"` // how Tag relates to a template tag
}

type C18Case struct {
	gen.Case
	Foreign []Foreign `json:"foreign"`
	Probes  []string  `json:"probes"` // tags looked up with fix.ValueByTag
	// EmptyValue: one populated String/Raw leaf is sent with an empty value, and a look-alike of its tag follows
	EmptyValue bool `json:"empty_value,omitempty"`
	// BadTyped (> 0): 1 + index (in wire order) of a typed leaf sent with the text 1x7 as its value; a foreign field
	// further on quotes "tag=7" in its value (0: none)
	BadTyped int `json:"bad_typed,omitempty"`
}

// affixVariants returns tags that have t as a proper decimal suffix or prefix
// or of which t is one.
func affixVariants(t *rapid.T, tag string, lbl string) (string, string) {
	d := strconv.Itoa(rapid.IntRange(1, 9).Draw(t, lbl+"Digit"))
	switch rapid.IntRange(0, 3).Draw(t, lbl+"Rel") {
	case 0:
		return d + tag, "template-tag-is-suffix" // 1146 vs 146
	case 1:
		return tag + d, "template-tag-is-prefix" // 1461 vs 146
	case 2:
		if len(tag) > 1 {
			return tag[1:], "suffix-of-template-tag" // 46 vs 146
		}
		return d + tag, "template-tag-is-suffix"
	default:
		if len(tag) > 1 {
			return tag[:len(tag)-1], "prefix-of-template-tag" // 14 vs 146
		}
		return tag + d, "template-tag-is-prefix"
	}
}

func genC18(t *rapid.T) *C18Case {
	po := gen.DefaultPop
	var c *gen.Case
	if rapid.IntRange(0, 99).Draw(t, "source") < 20 {
		tpl, _ := pickFix44(t)
		po.PresentPct = rapid.SampledFrom([]int{10, 30}).Draw(t, "pct")
		c = gen.Populate(t, tpl, po)
	} else {
		o := gen.DefaultOpts
		o.SimpleBegin = true
		c = gen.GenCase(t, o, po)
	}
	cc := &C18Case{Case: *c}
	tags := gen.AllTags(&c.Tpl)
	inTpl := map[string]bool{}
	for _, x := range tags {
		inTpl[x] = true
	}
	h, b, tr := gen.Wire(c)
	leaves := append(append(append([]gen.Leaf{}, h...), b...), tr...)
	// allowed insertion points: before a leaf outside any group entry, at the
	// end, and right after the delimiter field of an entry
	var allowed []int
	for i, l := range leaves {
		if l.Depth == 0 {
			allowed = append(allowed, i)
		}
		if l.First {
			allowed = append(allowed, i+1)
		}
	}
	allowed = append(allowed, len(leaves))
	nf := rapid.IntRange(0, 3).Draw(t, "nForeign")
	for i := 0; i < nf; i++ {
		base := rapid.SampledFrom(tags).Draw(t, "foreignBase")
		tag, rel := affixVariants(t, base, "foreign")
		if inTpl[tag] || tag == "" || tag[0] == '0' {
			continue
		}
		val, _ := gen.GenStringBytes(t, "foreignVal", tags)
		cc.Foreign = append(cc.Foreign, Foreign{Pos: rapid.SampledFrom(allowed).Draw(t, "foreignPos"), Tag: tag, Val: val, Rel: rel})
	}
	if rapid.IntRange(0, 3).Draw(t, "emptyValue") == 0 {
		// a genuine field arrives with an EMPTY value (tag= and nothing: only a peer can send that, the
		// library's own serializer leaves such a field out), and further on the text "tag=" occurs away
		// from a field boundary: in a longer tag or inside another value
		var cand []int
		for i, l := range leaves {
			if l.Depth == 0 && l.V != nil && !l.V.Decoy && (l.T == gen.TString || l.T == gen.TRaw) {
				cand = append(cand, i)
			}
		}
		if len(cand) > 0 {
			i := rapid.SampledFrom(cand).Draw(t, "emptyLeaf")
			leaves[i].V.S = []byte{}
			tag := leaves[i].Tok.Tag
			var later []int
			for _, a := range allowed {
				if a > i {
					later = append(later, a)
				}
			}
			if len(later) > 0 {
				f := Foreign{Pos: rapid.SampledFrom(later).Draw(t, "leakPos"), Rel: "template-tag-is-suffix"}
				if rapid.Bool().Draw(t, "leakInTag") {
					f.Tag, f.Val = "99"+tag, []byte("leak")
				} else {
					f.Tag, f.Val, f.Rel = "99"+tag+"1", []byte("ab"+tag+"=leak"), "template-tag-is-prefix"
				}
				if !inTpl[f.Tag] {
					cc.Foreign = append(cc.Foreign, f)
					cc.EmptyValue = true
				}
			}
		}
	}
	if !cc.EmptyValue && rapid.IntRange(0, 4).Draw(t, "badTyped") == 0 {
		// a typed field arrives with a value that is not of its type, and a later value quotes "tag=7":
		// the message does not parse (the quoted text is not a second chance)
		var cand []int
		for i, l := range leaves {
			if l.Depth == 0 && l.V != nil && !l.First && (l.T == gen.TInt || l.T == gen.TUint || l.T == gen.TFloat || l.T == gen.TTime) {
				cand = append(cand, i)
			}
		}
		if len(cand) > 0 {
			i := rapid.SampledFrom(cand).Draw(t, "badTypedLeaf")
			tag := leaves[i].Tok.Tag
			var later []int
			for _, a := range allowed {
				if a > i {
					later = append(later, a)
				}
			}
			ftag := "99" + tag + "9"
			if len(later) > 0 && !inTpl[ftag] {
				cc.BadTyped = i + 1
				cc.Foreign = append(cc.Foreign, Foreign{Pos: rapid.SampledFrom(later).Draw(t, "quotePos"), Tag: ftag, Val: []byte("see " + tag + "=7"), Rel: "template-tag-is-prefix"})
			}
		}
	}
	sort.SliceStable(cc.Foreign, func(i, j int) bool { return cc.Foreign[i].Pos < cc.Foreign[j].Pos })
	// probes: every template tag plus affix variants of some
	cc.Probes = append(cc.Probes, tags...)
	np := rapid.IntRange(0, 6).Draw(t, "nProbes")
	for i := 0; i < np; i++ {
		base := rapid.SampledFrom(tags).Draw(t, "probeBase")
		tag, _ := affixVariants(t, base, "probe")
		if tag != "" {
			cc.Probes = append(cc.Probes, tag)
		}
	}
	for _, f := range cc.Foreign {
		cc.Probes = append(cc.Probes, f.Tag)
	}
	return cc
}

// assembleC18 builds the message with REF: framing + model leaves + foreign fields.
func assembleC18(cc *C18Case) []byte {
	h, b, tr := gen.Wire(&cc.Case)
	leaves := append(append(append([]gen.Leaf{}, h...), b...), tr...)
	var toks []ref.Tok
	fi := 0
	for i := 0; i <= len(leaves); i++ {
		for fi < len(cc.Foreign) && cc.Foreign[fi].Pos == i {
			toks = append(toks, ref.Tok{Tag: cc.Foreign[fi].Tag, Val: string(cc.Foreign[fi].Val), HasEq: true})
			fi++
		}
		if i < len(leaves) {
			tok := leaves[i].Tok
			if i == cc.BadTyped-1 {
				tok.Val = "1x7"
			}
			toks = append(toks, tok)
		}
	}
	return ref.Assemble(cc.Tpl.Tags, cc.Tpl.Begin, cc.Tpl.MsgType, toks)
}

func valueByTag(b []byte, tag string) (v []byte, err error, panicked any) {
	defer func() {
		if r := recover(); r != nil {
			panicked = r
		}
	}()
	v, err = fix.ValueByTag(b, tag)
	return v, err, nil
}

func checkC18(cc *C18Case, rec *evid.Rec) (vs []pbt.Violation) {
	if gen.DuplicateTag(&cc.Tpl) != "" {
		rec.Hist("skipped:duplicate-tag")
		return nil
	}
	msg := assembleC18(cc)
	if err := ref.Framed(msg, cc.Tpl.Tags); err != nil {
		return []pbt.Violation{pbt.V("harness", "REF-assembled message is not framed: %v", err)}
	}
	st := gen.CaseStats(&cc.Case)
	// (a) differential lookup
	seen := map[string]bool{}
	for _, tag := range cc.Probes {
		if seen[tag] {
			continue
		}
		seen[tag] = true
		want, found := ref.Lookup(msg, tag)
		got, err, pan := valueByTag(append([]byte(nil), msg...), tag)
		switch {
		case pan != nil:
			vs = append(vs, pbt.V("lookup-panic", "ValueByTag(%q) panicked: %v on %s", tag, pan, ref.Show(msg)))
		case found && err != nil:
			vs = append(vs, pbt.V("lookup-missed", "ValueByTag(%q) fails (%v) although the field is present with value %q: %s", tag, err, want, ref.Show(msg)))
		case found && string(got) != want && !contains(ref.LookupAll(msg, tag), string(got)):
			vs = append(vs, pbt.V("lookup-wrong-value", "ValueByTag(%q) = %q, the field's value is %q: %s", tag, got, want, ref.Show(msg)))
		case !found && err == nil:
			vs = append(vs, pbt.V("lookup-phantom", "ValueByTag(%q) = %q although no field has that tag: %s", tag, got, ref.Show(msg)))
		}
		rec.Extra("lookups", 1)
		if len(vs) > 0 {
			break
		}
	}
	if cc.BadTyped > 0 {
		// (b') the message does not parse, whatever else it quotes
		rec.Hist("unparsable-typed-field-with-a-quote-of-its-tag-behind-it")
		for _, md := range modes {
			e, err := build.Empty(&cc.Tpl)
			if err != nil {
				return []pbt.Violation{pbt.V("build", "%v", err)}
			}
			perr, pan := parse(md.strict, e, msg)
			if pan == nil && perr == nil {
				vs = append(vs, pbt.V("unmarshal:unparsable-field-accepted", "%s parser accepts a message whose typed field has the value 1x7 (a later value quotes the tag): %s", md.name, ref.Show(msg)))
				break
			}
		}
		rec.Case(evid.FP(msg), true)
		return vs
	}
	// (b) parsing is unaffected by decoys and foreign fields
	for _, v := range parseAndCompare(&cc.Case, msg, false) {
		v.Key = "unmarshal:" + v.Key
		vs = append(vs, v)
	}
	nontrivial := st.Decoys > 0 || len(cc.Foreign) > 0
	rec.Case(evid.FP(msg), nontrivial)
	if st.Decoys > 0 {
		rec.Hist("decoy-value")
	}
	if cc.EmptyValue {
		rec.Hist("empty-value-with-a-look-alike-behind-it")
	}
	for _, f := range cc.Foreign {
		rec.Hist("foreign:" + f.Rel)
	}
	if cc.Tpl.Fix44 != "" {
		rec.Hist("fix44")
	}
	if rec.WantSample() && st.Decoys > 0 && len(cc.Foreign) > 0 {
		s := sampleOf(&SerCase{Case: cc.Case}, msg)
		s["foreign"] = cc.Foreign
		rec.Sample(s)
	}
	return vs
}

func TestC18(t *testing.T) {
	rec := evid.New("C18")
	pbt.Run(t, "C18", rec, genC18, checkC18)
}

func contains(xs []string, x string) bool {
	for _, y := range xs {
		if y == x {
			return true
		}
	}
	return false
}
