package codec

import (
	"fmt"
	"regexp"
	"testing"
	"time"

	"pgregory.net/rapid"

	"verif/harness/build"
	"verif/harness/evid"
	"verif/harness/gen"
	"verif/harness/pbt"
	"verif/harness/ref"
)

// ---------- C11: no byte string crashes or hangs the decoder ----------

// C11Case: a template, an input byte string, how the slice is presented
// (capacity clamped to its length, or a prefix of a larger buffer) and tags to
// look up.
type C11Case struct {
	Tpl    gen.Template `json:"tpl"`
	Input  []byte       `json:"input"`
	Spare  []byte       `json:"spare,omitempty"` // bytes lying behind the slice's end in the same buffer
	Clamp  bool         `json:"clamp"`
	Tags   []string     `json:"tags"`
	Class  string       `json:"class"`
	Framed bool         `json:"framed"`
}

func present(c *C11Case) []byte {
	if c.Clamp {
		b := append([]byte(nil), c.Input...)
		return b[:len(b):len(b)]
	}
	buf := make([]byte, 0, len(c.Input)+len(c.Spare))
	buf = append(buf, c.Input...)
	buf = append(buf, c.Spare...)
	return buf[:len(c.Input)]
}

var numRe = regexp.MustCompile(`[0-9]+`)

func panicKey(r any) string {
	s := fmt.Sprint(r)
	if len(s) > 80 {
		s = s[:80]
	}
	return numRe.ReplaceAllString(s, "N")
}

func genTemplateAny(t *rapid.T) gen.Template {
	if rapid.IntRange(0, 99).Draw(t, "source") < 25 {
		tpl, _ := pickFix44(t)
		return tpl
	}
	o := gen.DefaultOpts
	o.SimpleBegin = true
	return gen.GenTemplate(t, o)
}

// interestingTags: all template tags, with group count tags and the first
// tags of group entries repeated so that they are drawn more often.
func interestingTags(tpl *gen.Template) (all, counts, firsts []string) {
	all = gen.AllTags(tpl)
	var walk func(ns []*gen.Node)
	firstLeaf := func(n *gen.Node) string {
		for n != nil && n.K == gen.KComp && len(n.Items) > 0 {
			n = n.Items[0]
		}
		if n != nil && n.K == gen.KField {
			return n.Tag
		}
		return ""
	}
	walk = func(ns []*gen.Node) {
		for _, n := range ns {
			if n.K == gen.KGroup {
				counts = append(counts, n.Tag)
				if len(n.Items) > 0 {
					if f := firstLeaf(n.Items[0]); f != "" {
						firsts = append(firsts, f)
					}
				}
			}
			walk(n.Items)
		}
	}
	walk(tpl.Header)
	walk(tpl.Body)
	walk(tpl.Trailer)
	return
}

func genRawInput(t *rapid.T, tpl *gen.Template) ([]byte, string) {
	switch rapid.IntRange(0, 9).Draw(t, "rawClass") {
	case 0:
		return nil, "empty"
	case 1:
		n := rapid.IntRange(1, 3).Draw(t, "n")
		b := make([]byte, n)
		for i := range b {
			b[i] = rapid.SampledFrom([]byte{'8', '=', 1, '9', '1', '0', 'A', 0}).Draw(t, "b")
		}
		return b, "tiny"
	case 2:
		return []byte(rapid.StringMatching(`[0-9=A-Z.]{1,60}`).Draw(t, "s")), "no-delimiter"
	case 3:
		return []byte(rapid.StringMatching(`[0-9A-Z\x01]{1,60}`).Draw(t, "s")), "no-equals"
	case 4:
		n := rapid.IntRange(1, 20).Draw(t, "n")
		b := make([]byte, n)
		for i := range b {
			b[i] = 1
		}
		return b, "only-delimiters"
	case 5:
		return []byte(rapid.StringMatching(`([0-9]{1,3}=[A-Z0-9]{0,4})?(\x01{1,3}([0-9]{1,3}=?[A-Z0-9]{0,4})?){1,12}`).Draw(t, "s")), "repeated-delimiters"
	case 6:
		n := rapid.IntRange(1, 8192).Draw(t, "n")
		return rapid.SliceOfN(rapid.Byte(), n, n).Draw(t, "bytes"), "random-bytes"
	default:
		// a valid message of the template, mutated
		po := gen.DefaultPop
		po.Small = true
		c := gen.Populate(t, *tpl, po)
		msg := gen.Expected(c, true)
		k := rapid.IntRange(0, 4).Draw(t, "edits")
		for i := 0; i < k && len(msg) > 0; i++ {
			pos := rapid.IntRange(0, len(msg)-1).Draw(t, "pos")
			switch rapid.IntRange(0, 3).Draw(t, "edit") {
			case 0:
				msg[pos] = rapid.SampledFrom([]byte{1, '=', '0', '9', 0, 0xff}).Draw(t, "byte")
			case 1:
				msg = append(msg[:pos], msg[pos+1:]...)
			case 2:
				msg = msg[:pos]
			case 3:
				msg = append(msg[:pos], append([]byte{rapid.SampledFrom([]byte{1, '=', '1'}).Draw(t, "ins")}, msg[pos:]...)...)
			}
		}
		return msg, "mutated-valid"
	}
}

// genHostileFramed draws a token list that REF frames correctly, so that the
// input passes the integrity check and reaches field and group parsing.
func genHostileFramed(t *rapid.T, tpl *gen.Template) ([]byte, string) {
	all, counts, firsts := interestingTags(tpl)
	pick := func(lbl string) string {
		k := rapid.IntRange(0, 9).Draw(t, lbl+"K")
		switch {
		case k < 3 && len(counts) > 0:
			return rapid.SampledFrom(counts).Draw(t, lbl+"C")
		case k < 5 && len(firsts) > 0:
			return rapid.SampledFrom(firsts).Draw(t, lbl+"F")
		case k < 8:
			return rapid.SampledFrom(all).Draw(t, lbl+"A")
		default:
			return rapid.StringMatching(`[0-9]{0,5}`).Draw(t, lbl+"X")
		}
	}
	if rapid.IntRange(0, 9).Draw(t, "nearValid") < 6 {
		// tokens of a valid population, then token-level damage: the result
		// stays correctly framed and goes deep into group parsing
		po := gen.PopOpts{Small: true, Decoys: true, PresentPct: rapid.SampledFrom([]int{75, 75, 30}).Draw(t, "presentPct"), MaxEntries: 3}
		c := gen.Populate(t, *tpl, po)
		h, b, tr := gen.Wire(c)
		var toks []ref.Tok
		var firsts []int // positions of the fields that open a group entry
		for _, l := range append(append(h, b...), tr...) {
			if l.First {
				firsts = append(firsts, len(toks))
			}
			toks = append(toks, l.Tok)
		}
		if len(firsts) > 0 && rapid.IntRange(0, 3).Draw(t, "emptyDelimiter") == 0 {
			// an entry whose opening field has an empty value (tag= and nothing): legal bytes, odd entry
			toks[rapid.SampledFrom(firsts).Draw(t, "emptyAt")].Val = ""
		}
		k := rapid.IntRange(1, 3).Draw(t, "tokEdits")
		for i := 0; i < k && len(toks) > 0; i++ {
			pos := rapid.IntRange(0, len(toks)-1).Draw(t, "tokPos")
			switch rapid.IntRange(0, 9).Draw(t, "tokEdit") {
			case 8: // the value grows at its end: more precision, a suffix, junk (longer than any layout of its type)
				toks[pos].Val += rapid.SampledFrom([]string{"0", "456", "456789", "Z", "+01:00", ".5", "e9", "00000000000000000000", " and then some more text"}).Draw(t, "suffix")
			case 9: // the value grows at its front
				toks[pos].Val = rapid.SampledFrom([]string{"-", "+", "0", "00000000000000000000", " ", "1"}).Draw(t, "prefix") + toks[pos].Val
			case 0: // drop the field
				toks = append(toks[:pos], toks[pos+1:]...)
			case 1: // strip '=' and value
				toks[pos] = ref.Tok{Tag: toks[pos].Tag}
			case 2: // bare junk instead of the field
				toks[pos] = ref.Tok{Tag: rapid.StringMatching(`[a-z0-9]{0,4}`).Draw(t, "junk")}
			case 3: // duplicate the field
				toks = append(toks[:pos+1], toks[pos:]...)
			case 4: // cut everything after
				toks = toks[:pos+1]
			case 5: // change the value (counts become wrong)
				toks[pos].Val = rapid.SampledFrom([]string{"0", "1", "2", "5", "", "x", "-1", "-", "+", ".", "-.", "e", "-e1", "Y", "N"}).Draw(t, "newVal")
			case 6: // empty token
				toks[pos] = ref.Tok{}
			case 7: // swap with the neighbour
				if pos+1 < len(toks) {
					toks[pos], toks[pos+1] = toks[pos+1], toks[pos]
				}
			}
		}
		out := ref.Assemble(tpl.Tags, tpl.Begin, tpl.MsgType, toks)
		if rapid.IntRange(0, 9).Draw(t, "extremeLen") == 0 {
			// everything right except what BodyLength declares: far too large, negative, overflowing
			return ref.Relength(out, tpl.Tags, rapid.SampledFrom(ref.ExtremeLengths).Draw(t, "declaredLen")), "declared-length-extreme"
		}
		return out, "framed-near-valid"
	}
	n := rapid.IntRange(0, 14).Draw(t, "nTok")
	var toks []ref.Tok
	for i := 0; i < n; i++ {
		switch rapid.IntRange(0, 11).Draw(t, "tokKind") {
		case 0:
			toks = append(toks, ref.Tok{}) // empty token: two delimiters in a row
		case 1:
			toks = append(toks, ref.Tok{Tag: pick("bare")}) // token without '='
		case 2:
			toks = append(toks, ref.Tok{Tag: "", Val: rapid.StringMatching(`[0-9A-Z]{0,3}`).Draw(t, "v"), HasEq: true})
		case 3, 4, 5:
			toks = append(toks, ref.Tok{Tag: pick("cnt"), Val: rapid.SampledFrom([]string{"0", "1", "2", "3", "-1", "x", "", "99999999999999999999", "2"}).Draw(t, "cv"), HasEq: true})
		default:
			toks = append(toks, ref.Tok{Tag: pick("fld"), Val: rapid.StringMatching(rapid.SampledFrom([]string{`[ -~]{0,6}`, `[ -~]{0,6}`, `[0-9:.-]{15,40}`}).Draw(t, "fvShape")).Draw(t, "fv"), HasEq: true})
		}
	}
	msgType := tpl.MsgType
	class := "framed-hostile"
	if rapid.IntRange(0, 9).Draw(t, "noType") == 0 {
		msgType = ""
		class = "framed-hostile-no-msgtype"
	}
	return ref.Assemble(tpl.Tags, tpl.Begin, msgType, toks), class
}

func genC11(framed bool) func(t *rapid.T) *C11Case {
	return func(t *rapid.T) *C11Case {
		c := &C11Case{Tpl: genTemplateAny(t), Framed: framed}
		if framed {
			c.Input, c.Class = genHostileFramed(t, &c.Tpl)
		} else {
			c.Input, c.Class = genRawInput(t, &c.Tpl)
		}
		c.Clamp = rapid.Bool().Draw(t, "clamp")
		if !c.Clamp {
			c.Spare = []byte(rapid.StringMatching(`[0-9=\x01A]{0,12}`).Draw(t, "spare"))
		}
		all := gen.AllTags(&c.Tpl)
		nt := rapid.IntRange(1, 4).Draw(t, "nTags")
		for i := 0; i < nt; i++ {
			if rapid.Bool().Draw(t, "tplTag") {
				c.Tags = append(c.Tags, rapid.SampledFrom(all).Draw(t, "tag"))
			} else {
				c.Tags = append(c.Tags, rapid.StringMatching(`[0-9=\x01]{0,6}`).Draw(t, "tagRaw"))
			}
		}
		return c
	}
}

func checkC11(test string) func(c *C11Case, rec *evid.Rec) []pbt.Violation {
	return func(c *C11Case, rec *evid.Rec) (vs []pbt.Violation) {
		done := pbt.WatchFor(60*time.Second, "C11", test, c)
		defer done()
		for _, md := range modes {
			e, err := build.Empty(&c.Tpl)
			if err != nil {
				return []pbt.Violation{pbt.V("build", "%v", err)}
			}
			_, pan := parse(md.strict, e, present(c))
			if pan != nil {
				vs = append(vs, pbt.V("panic:unmarshal:"+panicKey(pan), "%s Unmarshal panicked (%v) on %q (clamped=%v)", md.name, pan, c.Input, c.Clamp))
				break
			}
		}
		for _, tag := range c.Tags {
			_, _, pan := valueByTag(present(c), tag)
			if pan != nil {
				vs = append(vs, pbt.V("panic:valuebytag:"+panicKey(pan), "ValueByTag(%q) panicked (%v) on %q", tag, pan, c.Input))
				break
			}
		}
		framedOK := ref.FramedNoType(c.Input, c.Tpl.Tags) == nil
		names := false
		if framedOK {
			toks, _ := ref.Tokenize(c.Input)
			tplTags := map[string]bool{}
			for _, x := range gen.AllTags(&c.Tpl)[4:] {
				tplTags[x] = true
			}
			_, counts, _ := interestingTags(&c.Tpl)
			isCount := map[string]bool{}
			for _, x := range counts {
				isCount[x] = true
			}
			reached := false
			for _, tk := range toks[2 : len(toks)-1] {
				if tplTags[tk.Tag] {
					names = true
				}
				if isCount[tk.Tag] && tk.HasEq {
					reached = true
				}
			}
			if reached {
				rec.Hist("reached-group-splitting")
			}
		}
		rec.Case(evid.FP(c.Input, []byte(c.Tpl.Fix44), []byte(gen.Shape(c.Tpl.Body))), framedOK && names)
		rec.Hist("class:" + c.Class)
		if c.Clamp {
			rec.Hist("capacity-clamped")
		}
		if rec.WantSample() && framedOK && names {
			rec.Sample(map[string]any{"class": c.Class, "input": ref.Show(c.Input), "template-body": gen.Shape(c.Tpl.Body), "fix44": c.Tpl.Fix44, "lookups": c.Tags})
		}
		return vs
	}
}

func TestC11Raw(t *testing.T) {
	rec := evid.New("C11/raw")
	pbt.Run(t, "C11", rec, genC11(false), checkC11("TestC11Raw"))
}

func TestC11Framed(t *testing.T) {
	rec := evid.New("C11/framed")
	pbt.Run(t, "C11", rec, genC11(true), checkC11("TestC11Framed"))
}
