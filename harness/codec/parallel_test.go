package codec

import (
	"encoding/json"
	"sync"
	"testing"

	"pgregory.net/rapid"

	"verif/harness/evid"
	"verif/harness/gen"
	"verif/harness/pbt"
)

// ---------- C01 / C02 / C17 with several messages in flight at once ----------
//
// An application serializes on its sender goroutines and parses on one
// goroutine per connection. The single-case checks run one message at a time,
// so state shared between calls inside the library (a package-level scratch
// buffer, a cache keyed too coarsely) would stay invisible to them. These
// engines draw four independent cases and run the unchanged single-case check on
// each of them on a goroutine of its own, three times over, with fresh objects
// every time; the harness shares nothing between the goroutines.

type ParSerCase struct {
	Cases []*SerCase `json:"cases"`
}

type ParParseCase struct {
	Cases []*gen.Case `json:"cases"`
}

const parWidth, parRounds = 4, 3

func genParSer(t *rapid.T) *ParSerCase {
	p := &ParSerCase{}
	for i := 0; i < parWidth; i++ {
		p.Cases = append(p.Cases, genSerCase(t))
	}
	return p
}

func genParParse(t *rapid.T) *ParParseCase {
	p := &ParParseCase{}
	for i := 0; i < parWidth; i++ {
		p.Cases = append(p.Cases, genC02(t))
	}
	return p
}

// runPar runs check on private copies of the cases concurrently.
func runPar[C any](cases []*C, rec *evid.Rec, check func(*C, *evid.Rec) []pbt.Violation) (vs []pbt.Violation) {
	raws := make([][]byte, len(cases))
	for i, c := range cases {
		b, err := json.Marshal(c)
		if err != nil {
			return []pbt.Violation{pbt.V("harness", "case not serializable: %v", err)}
		}
		raws[i] = b
	}
	var mu sync.Mutex
	var wg sync.WaitGroup
	start := make(chan struct{})
	for i := range cases {
		i := i
		wg.Add(1)
		go func() {
			defer wg.Done()
			<-start
			for r := 0; r < parRounds; r++ {
				var c C
				if err := json.Unmarshal(raws[i], &c); err != nil {
					mu.Lock()
					vs = append(vs, pbt.V("harness", "case copy: %v", err))
					mu.Unlock()
					return
				}
				got := check(&c, rec)
				if len(got) > 0 {
					mu.Lock()
					for _, v := range got {
						v.Key = "parallel:" + v.Key
						v.Msg = "with other messages being serialized/parsed at the same time: " + v.Msg
						vs = append(vs, v)
					}
					mu.Unlock()
					return
				}
			}
		}()
	}
	close(start)
	wg.Wait()
	rec.Hist("parallel:engine")
	if len(vs) > 3 {
		vs = vs[:3]
	}
	return vs
}

func TestC01Parallel(t *testing.T) {
	rec := evid.New("C01/parallel")
	pbt.Run(t, "C01", rec, genParSer, func(p *ParSerCase, rec *evid.Rec) []pbt.Violation { return runPar(p.Cases, rec, checkC01) })
}

func TestC17Parallel(t *testing.T) {
	rec := evid.New("C17/parallel")
	pbt.Run(t, "C17", rec, genParSer, func(p *ParSerCase, rec *evid.Rec) []pbt.Violation { return runPar(p.Cases, rec, checkC17) })
}

func TestC02Parallel(t *testing.T) {
	rec := evid.New("C02/parallel")
	pbt.Run(t, "C02", rec, genParParse, func(p *ParParseCase, rec *evid.Rec) []pbt.Violation { return runPar(p.Cases, rec, checkC02) })
}
