package codec

import (
	"testing"

	"verif/harness/build"
	"verif/harness/gen"
	"verif/harness/ref"
)

// Native fuzz targets (thorough tier). The semantic oracles sit inside the
// targets; the fuzzer's bytes are decoded into (template choice, mode, body)
// and the body is framed by REF so that inputs get past the integrity check.

func fuzzTemplates() []gen.Template {
	tpls, err := gen.Fix44()
	if err != nil {
		panic(err)
	}
	// plus two generic nested-group templates with prefix-family tags
	nested := gen.Template{Tags: ref.StdTags, Begin: "FIX.4.4", MsgType: "X",
		Header: []*gen.Node{{K: gen.KField, Tag: "34", T: gen.TInt}, {K: gen.KField, Tag: "49", T: gen.TString}},
		Body: []*gen.Node{
			{K: gen.KField, Tag: "58", T: gen.TString},
			{K: gen.KGroup, Tag: "146", Items: []*gen.Node{
				{K: gen.KField, Tag: "55", T: gen.TString},
				{K: gen.KGroup, Tag: "864", Items: []*gen.Node{{K: gen.KField, Tag: "865", T: gen.TInt}, {K: gen.KField, Tag: "868", T: gen.TString}}},
				{K: gen.KComp, Items: []*gen.Node{{K: gen.KField, Tag: "14", T: gen.TFloat}, {K: gen.KField, Tag: "1146", T: gen.TBool}}},
			}},
			{K: gen.KField, Tag: "46", T: gen.TRaw},
		}}
	flat := gen.Template{Tags: ref.Tags{BeginString: "14", BodyLength: "141", MsgType: "1411", CheckSum: "14111"}, Begin: "F", MsgType: "A",
		Body: []*gen.Node{{K: gen.KGroup, Tag: "4", Items: []*gen.Node{{K: gen.KField, Tag: "1", T: gen.TTime}}}, {K: gen.KField, Tag: "41", T: gen.TUint}}}
	return append(tpls, nested, flat)
}

var fuzzSeeds = [][]byte{
	[]byte("35=X\x0134=1\x0149=S\x0158=hello\x01146=2\x0155=A\x01864=1\x01865=1\x01868=put\x0155=B\x0146=r\x01"),
	[]byte("35=X\x01146=2\x0155=A\x01864=1\x01junk\x0155=B\x01"),
	[]byte("35=X\x01146=1\x01"),
	[]byte("35=X\x01146=\x01"),
	[]byte("35=X\x01146=3\x0155=A\x01"),
	[]byte("35=A\x0198=0\x01108=30\x01384=2\x01372=D\x01385=S\x01372=8\x01"),
	[]byte("8"), []byte("8="), []byte(""), []byte("\x01"), []byte("=\x01=\x01"),
	[]byte("35=V\x01262=r\x01263=1\x01264=0\x01267=2\x01269=0\x01269=1\x01146=1\x0155=EUR\x01711=1\x01311=U\x01"),
}

// FuzzUnmarshalFramed: C11 (no panic) and C03 (accepted => framed) on REF-framed bodies.
func FuzzUnmarshalFramed(f *testing.F) {
	tpls := fuzzTemplates()
	for i, s := range fuzzSeeds {
		f.Add(s, uint8(i), true, false)
		f.Add(s, uint8(i*7), false, true)
	}
	f.Fuzz(func(t *testing.T, body []byte, sel uint8, strict bool, asIs bool) {
		if len(body) > 4096 {
			return
		}
		tpl := tpls[int(sel)%len(tpls)]
		input := body
		if !asIs {
			b := append([]byte(nil), body...)
			if n := len(b); n > 0 && b[n-1] != ref.SOH {
				b = append(b, ref.SOH)
			}
			input = ref.Frame(tpl.Tags, tpl.Begin, b)
		}
		e, err := build.Empty(&tpl)
		if err != nil {
			t.Skip()
		}
		perr, pan := parse(strict, e, input[:len(input):len(input)])
		if pan != nil {
			t.Fatalf("C11: Unmarshal panicked (%v) on %q", pan, input)
		}
		if perr == nil {
			if ferr := ref.FramedNoType(input, tpl.Tags); ferr != nil {
				t.Fatalf("C03: accepted although not consistently framed (%v): %q", ferr, input)
			}
		}
	})
}

// FuzzValueByTag: C11 (no panic) and C18(a) (differential with the reference lookup on framed messages).
func FuzzValueByTag(f *testing.F) {
	for _, s := range fuzzSeeds {
		f.Add(s, "146")
		f.Add(s, "46")
		f.Add(s, "8")
		f.Add(s, "10")
	}
	f.Fuzz(func(t *testing.T, body []byte, tag string) {
		if len(body) > 4096 || len(tag) > 8 {
			return
		}
		// raw lookup: must not panic
		if _, _, pan := valueByTag(body[:len(body):len(body)], tag); pan != nil {
			t.Fatalf("C11: ValueByTag(%q) panicked (%v) on %q", tag, pan, body)
		}
		for _, c := range []byte(tag) {
			if c < '0' || c > '9' {
				return
			}
		}
		if tag == "" {
			return
		}
		b := append([]byte(nil), body...)
		if n := len(b); n > 0 && b[n-1] != ref.SOH {
			b = append(b, ref.SOH)
		}
		msg := ref.Frame(ref.StdTags, "FIX.4.4", b)
		// which occurrence is returned when a tag occurs more than once is not
		// part of the property: any field with exactly that tag is a correct answer
		all := ref.LookupAll(msg, tag)
		found := len(all) > 0
		got, err, pan := valueByTag(msg, tag)
		okValue := false
		for _, v := range all {
			if v == string(got) {
				okValue = true
			}
		}
		switch {
		case pan != nil:
			t.Fatalf("C11: ValueByTag(%q) panicked (%v) on %q", tag, pan, msg)
		case found && (err != nil || !okValue):
			t.Fatalf("C18: ValueByTag(%q) = %q, %v; fields with that tag carry %q in %q", tag, got, err, all, msg)
		case !found && err == nil:
			t.Fatalf("C18: ValueByTag(%q) = %q although no field has that tag in %q", tag, got, msg)
		}
	})
}
