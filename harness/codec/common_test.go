package codec

import (
	"fmt"
	"strconv"

	"github.com/b2broker/simplefix-go/fix"
	"pgregory.net/rapid"

	"verif/harness/build"
	"verif/harness/gen"
	"verif/harness/pbt"
	"verif/harness/ref"
)

// SerCase is the case of the serialization checks (C01, C17): a populated
// template, optional length/checksum steering, and one metamorphic mutation
// applied to the same library object between two serializations.
type SerCase struct {
	gen.Case
	WantLen  int        `json:"want_len,omitempty"`
	WantCS   int        `json:"want_cs"`
	MutKind  int        `json:"mut_kind"` // 0 none, 1 change/populate a leaf, 2 unset a leaf, 3 append a group entry, 4 take a field out with KeyValue.Set(nil), 5 a Set call the value refuses (wrong Go type): nothing may change, 6 SetBody called again with the body's own items
	MutIndex int        `json:"mut_index"`
	MutVals  []*gen.Val `json:"mut_vals,omitempty"` // one candidate per value type, indexed by VT
	MutEntry int        `json:"mut_entry"`          // which existing entry to clone when appending
	// ReparseType: as a last step a message of this (other) MsgType, otherwise equal to the object's own
	// serialization, is parsed INTO the object, which is then serialized once more ("" = no such step)
	ReparseType string `json:"reparse_type,omitempty"`
}

func pickFix44(t *rapid.T) (gen.Template, bool) {
	tpls, err := gen.Fix44()
	if err != nil {
		panic("cannot read /repo/source/fix44.xml: " + err.Error())
	}
	return rapid.SampledFrom(tpls).Draw(t, "fix44"), true
}

func genSerCase(t *rapid.T) *SerCase {
	sc := &SerCase{WantCS: -1}
	po := gen.DefaultPop
	// serialization properties quantify over ALL populations: entries may be blank or lack their first field
	po.LooseEntries = rapid.IntRange(0, 3).Draw(t, "looseEntries") == 0
	if rapid.IntRange(0, 99).Draw(t, "source") < 25 {
		tpl, _ := pickFix44(t)
		po.PresentPct = rapid.SampledFrom([]int{10, 30, 60}).Draw(t, "pct")
		sc.Case = *gen.Populate(t, tpl, po)
	} else {
		if po.LooseEntries {
			po.PresentPct = rapid.SampledFrom([]int{30, 70}).Draw(t, "pctLoose")
		}
		sc.Case = *gen.GenCase(t, gen.DefaultOpts, po)
	}
	switch rapid.IntRange(0, 9).Draw(t, "steer") {
	case 0, 1, 2:
		sc.WantLen = rapid.SampledFrom(gen.BodyLenTargets).Draw(t, "wantLen")
		if !gen.Retarget(&sc.Case, sc.WantLen, -1) {
			sc.WantLen = 0
		}
	case 3, 4, 5:
		sc.WantCS = rapid.SampledFrom([]int{0, 1, 5, 9, 10, 42, 99, 100, 255}).Draw(t, "wantCS")
		if !gen.Retarget(&sc.Case, 0, sc.WantCS) {
			sc.WantCS = -1
		}
	case 6:
		sc.WantLen = rapid.SampledFrom(gen.BodyLenTargets).Draw(t, "wantLen")
		sc.WantCS = rapid.SampledFrom([]int{0, 7, 10, 99, 100, 255}).Draw(t, "wantCS")
		if !gen.Retarget(&sc.Case, sc.WantLen, sc.WantCS) {
			sc.WantLen, sc.WantCS = 0, -1
		}
	}
	sc.MutKind = rapid.SampledFrom([]int{0, 1, 1, 1, 2, 3, 4, 5, 6}).Draw(t, "mutKind")
	sc.MutIndex = rapid.IntRange(0, 1000).Draw(t, "mutIndex")
	sc.MutEntry = rapid.IntRange(0, 10).Draw(t, "mutEntry")
	if sc.MutKind == 1 {
		tags := gen.AllTags(&sc.Tpl)
		for vt := gen.VT(0); vt <= gen.TRaw; vt++ {
			sc.MutVals = append(sc.MutVals, gen.GenVal(t, vt, "mut"+vt.String(), tags))
		}
	}
	if rapid.IntRange(0, 4).Draw(t, "reparse") == 0 {
		if rt := rapid.SampledFrom([]string{"AE", "0", "D", "XYZ", "8", "AB"}).Draw(t, "reparseType"); len(rt) != len(sc.Tpl.MsgType) {
			sc.ReparseType = rt
		}
	}
	return sc
}

// applyMut applies the case's mutation to the library message and to the
// model (so that expectations can be recomputed). Trailer leaves take part.
func applyMut(m *fix.Message, sc *SerCase) (string, error) {
	c := &sc.Case
	switch sc.MutKind {
	case 6:
		// the application specifies the body again (SetBody with the items the message holds): it
		// replaces the body, it does not extend it
		if len(m.Body()) == 0 {
			return "none", nil
		}
		m.SetBody(append(fix.Items(nil), m.Body()...)...)
		return "setbody-again", nil
	case 1, 2, 4, 5:
		var leaves []build.LeafRef
		build.Leaves(m.Header().Items(), c.Tpl.Header, c.Header, false, false, &leaves)
		build.Leaves(m.Body(), c.Tpl.Body, c.Body, false, false, &leaves)
		build.Leaves(build.TrailerItems(m, &c.Tpl), c.Tpl.Trailer, c.Trailer, false, false, &leaves)
		if len(leaves) == 0 {
			return "none", nil
		}
		l := leaves[sc.MutIndex%len(leaves)]
		if sc.MutKind == 1 {
			nv := *sc.MutVals[l.N.T]
			if err := build.Install(l.KV, l.N.T, &nv); err != nil {
				return "", fmt.Errorf("install: %v", err)
			}
			was := "populate"
			if l.P.V != nil {
				was = "change:" + gen.RouteNames[l.P.V.Route]
			}
			l.P.V = &nv
			return was + ">" + gen.RouteNames[nv.Route] + ":" + l.N.T.String(), nil
		}
		if sc.MutKind == 5 {
			// a setter called with a Go type the value does not take: it must refuse and leave the field as it is
			wrong := []any{[]byte("no"), int64(7), 7, float32(1.5), "20240101-00:00:00.000", "Y", "raw"}[l.N.T]
			if l.KV.Value == nil {
				return "none", nil
			}
			if err := l.KV.Load().Set(wrong); err == nil {
				return "", fmt.Errorf("%s.Set(%T) did not refuse the value", l.N.T, wrong)
			}
			return "refused-set:" + l.N.T.String(), nil
		}
		if sc.MutKind == 4 {
			if l.First || l.P.V == nil {
				return "none", nil
			}
			l.KV.Set(nil) // the field has no value any more
			l.P.V = nil
			return "kvset-nil:" + l.N.T.String(), nil
		}
		if l.First || l.N.T == gen.TRaw || l.P.V == nil {
			return "none", nil // never unset an entry's delimiter; Raw has no typed unset
		}
		if err := l.KV.Load().Set(nil); err != nil {
			return "", fmt.Errorf("Set(nil): %v", err)
		}
		l.P.V = nil
		return "unset:" + l.N.T.String(), nil
	case 3:
		var groups []build.GroupRef
		build.Groups(m.Header().Items(), c.Tpl.Header, c.Header, &groups)
		build.Groups(m.Body(), c.Tpl.Body, c.Body, &groups)
		if len(groups) == 0 {
			return "none", nil
		}
		g := groups[sc.MutIndex%len(groups)]
		if len(g.P.Entries) == 0 {
			return "none", nil
		}
		src := g.P.Entries[sc.MutEntry%len(g.P.Entries)]
		entry := build.NewItems(g.N.Items)
		if err := build.Fill(entry, g.N.Items, src); err != nil {
			return "", err
		}
		g.G.AddEntry(entry)
		g.P.Entries = append(g.P.Entries, src)
		return "addentry", nil
	}
	return "none", nil
}

// tokensMatch compares actual wire tokens with expected leaves; Float leaves
// are judged by the validity predicate.
func tokensMatch(actual []ref.Tok, exp []gen.Leaf) (int, string) {
	for i := 0; i < len(exp) || i < len(actual); i++ {
		if i >= len(actual) {
			return i, "missing"
		}
		if i >= len(exp) {
			return i, "extra"
		}
		a, e := actual[i], exp[i]
		if !a.HasEq || a.Tag != e.Tok.Tag {
			// is the actual token a later expected one? then exp[i] is missing
			for j := i + 1; j < len(exp); j++ {
				if exp[j].Tok.Tag == a.Tag {
					return i, "missing"
				}
			}
			return i, "extra"
		}
		if e.T == gen.TFloat && e.V != nil {
			if err := ref.FloatTextOK(a.Val, e.V.Float()); err != nil {
				return i, "text"
			}
			continue
		}
		if a.Val != e.Tok.Val {
			return i, "text"
		}
	}
	return -1, ""
}

func leafKey(l gen.Leaf) string {
	if l.Count {
		return "count:" + l.Part
	}
	return l.T.String() + ":" + gen.RouteNames[l.V.Route] + ":" + l.Part
}

func digits(n int) int { return len(strconv.Itoa(n)) }

func csClass(cs string) string {
	n, _ := strconv.Atoi(cs)
	switch {
	case n < 10:
		return "cs<10"
	case n < 100:
		return "cs<100"
	default:
		return "cs>=100"
	}
}

func sampleOf(sc *SerCase, wire []byte) map[string]any {
	w := ref.Show(wire)
	if len(w) > 400 {
		w = w[:400] + "..."
	}
	return map[string]any{
		"template":   fmt.Sprintf("fix44=%q tags=%v header=%s body=%s trailer=%s", sc.Tpl.Fix44, sc.Tpl.Tags, gen.Shape(sc.Tpl.Header), gen.Shape(sc.Tpl.Body), gen.Shape(sc.Tpl.Trailer)),
		"population": "header=" + gen.PopShape(sc.Tpl.Header, sc.Header) + " body=" + gen.PopShape(sc.Tpl.Body, sc.Body) + " trailer=" + gen.PopShape(sc.Tpl.Trailer, sc.Trailer),
		"wire":       w,
	}
}

var _ = pbt.V
