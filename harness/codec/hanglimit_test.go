package codec

import (
	"time"

	"verif/harness/pbt"
)

// One case of C03 is a whole damage neighbourhood (up to hundreds of thousands
// of parses), and the thorough tier runs 16 shards next to whatever else the
// machine does: the generic watchdog limit is far too tight here. An endless
// loop inside the parser is still noticed, after ten minutes.
func init() { pbt.HangLimit = 10 * time.Minute }
