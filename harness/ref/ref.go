// Package ref is the independent reference used by every oracle: a FIX
// tokenizer, a framing checker, a field lookup and canonical value texts.
// It is written from the FIX definitions quoted in the properties and shares
// no code with the library under test.
package ref

import (
	"fmt"
	"math"
	"strconv"
)

const SOH = 0x01

// Tok is one tag=value field. HasEq is false for a token without '='.
type Tok struct {
	Tag   string
	Val   string
	HasEq bool
}

// Tags are the tag numbers of the four framing fields.
type Tags struct {
	BeginString, BodyLength, MsgType, CheckSum string
}

var StdTags = Tags{"8", "9", "35", "10"}

// Tokenize splits b on SOH (which must terminate it) and each token at its
// first '='.
func Tokenize(b []byte) ([]Tok, error) {
	if len(b) == 0 {
		return nil, fmt.Errorf("empty")
	}
	if b[len(b)-1] != SOH {
		return nil, fmt.Errorf("no trailing SOH")
	}
	var out []Tok
	start := 0
	for i := 0; i < len(b); i++ {
		if b[i] != SOH {
			continue
		}
		tok := b[start:i]
		eq := -1
		for j := 0; j < len(tok); j++ {
			if tok[j] == '=' {
				eq = j
				break
			}
		}
		if eq < 0 {
			out = append(out, Tok{Tag: string(tok)})
		} else {
			out = append(out, Tok{Tag: string(tok[:eq]), Val: string(tok[eq+1:]), HasEq: true})
		}
		start = i + 1
	}
	return out, nil
}

func allDigits(s string) bool {
	if s == "" {
		return false
	}
	for i := 0; i < len(s); i++ {
		if s[i] < '0' || s[i] > '9' {
			return false
		}
	}
	return true
}

// FrameErr classifies a framing defect.
type FrameErr struct {
	Class string // "token", "order", "bodylength", "checksum-format", "checksum-value"
	Msg   string
}

func (e *FrameErr) Error() string { return e.Class + ": " + e.Msg }

func ferr(class, format string, a ...any) error {
	return &FrameErr{Class: class, Msg: fmt.Sprintf(format, a...)}
}

// Class returns the class of a framing error ("" for nil).
func Class(err error) string {
	if err == nil {
		return ""
	}
	if fe, ok := err.(*FrameErr); ok {
		return fe.Class
	}
	return "other"
}

// Framed reports nil iff b is a correctly framed FIX message for the tag
// numbers in tg: BeginString, BodyLength, MsgType first, CheckSum last,
// BodyLength = number of bytes after the BodyLength field's SOH up to and
// including the SOH preceding CheckSum, CheckSum = three-digit sum mod 256 of
// all bytes before the CheckSum field.
func Framed(b []byte, tg Tags) error {
	return framed(b, tg, true)
}

// FramedNoType is Framed without the requirement that MsgType is third
// (the parser's integrity check speaks about BodyLength and CheckSum only).
func FramedNoType(b []byte, tg Tags) error {
	return framed(b, tg, false)
}

func framed(b []byte, tg Tags, needType bool) error {
	toks, err := Tokenize(b)
	if err != nil {
		return ferr("token", "%v", err)
	}
	min := 3
	if needType {
		min = 4
	}
	if len(toks) < min {
		return ferr("order", "only %d fields", len(toks))
	}
	if !toks[0].HasEq || toks[0].Tag != tg.BeginString {
		return ferr("order", "first field is %q, not BeginString", toks[0].Tag)
	}
	if !toks[1].HasEq || toks[1].Tag != tg.BodyLength {
		return ferr("order", "second field is %q, not BodyLength", toks[1].Tag)
	}
	if needType && (!toks[2].HasEq || toks[2].Tag != tg.MsgType) {
		return ferr("order", "third field is %q, not MsgType", toks[2].Tag)
	}
	last := toks[len(toks)-1]
	if !last.HasEq || last.Tag != tg.CheckSum {
		return ferr("order", "last field is %q, not CheckSum", last.Tag)
	}
	if !allDigits(toks[1].Val) {
		return ferr("bodylength", "BodyLength %q is not a decimal number", toks[1].Val)
	}
	n, err := strconv.Atoi(toks[1].Val)
	if err != nil {
		return ferr("bodylength", "BodyLength %q: %v", toks[1].Val, err)
	}
	// byte offsets
	bodyStart := len(toks[0].Tag) + 1 + len(toks[0].Val) + 1 + len(toks[1].Tag) + 1 + len(toks[1].Val) + 1
	csLen := len(last.Tag) + 1 + len(last.Val) + 1
	csStart := len(b) - csLen
	if csStart < bodyStart {
		return ferr("bodylength", "no room for a body")
	}
	measured := csStart - bodyStart
	if measured != n {
		return ferr("bodylength", "BodyLength says %d, measured %d", n, measured)
	}
	if len(last.Val) != 3 || !allDigits(last.Val) {
		return ferr("checksum-format", "CheckSum %q is not three digits", last.Val)
	}
	sum := 0
	for i := 0; i < csStart; i++ {
		sum += int(b[i])
	}
	sum %= 256
	want := fmt.Sprintf("%03d", sum)
	if want != last.Val {
		return ferr("checksum-value", "CheckSum says %s, computed %s", last.Val, want)
	}
	return nil
}

// Lookup returns the value of the first field whose tag is exactly tag.
func Lookup(b []byte, tag string) (string, bool) {
	// tolerant tokenizer: a missing trailing SOH ends the last token at len(b)
	start := 0
	for i := 0; i <= len(b); i++ {
		if i < len(b) && b[i] != SOH {
			continue
		}
		tok := b[start:i]
		start = i + 1
		for j := 0; j < len(tok); j++ {
			if tok[j] == '=' {
				if string(tok[:j]) == tag {
					return string(tok[j+1:]), true
				}
				break
			}
		}
	}
	return "", false
}

// LookupAll returns the values of every field whose tag is exactly tag.
func LookupAll(b []byte, tag string) []string {
	var out []string
	start := 0
	for i := 0; i <= len(b); i++ {
		if i < len(b) && b[i] != SOH {
			continue
		}
		tok := b[start:i]
		start = i + 1
		for j := 0; j < len(tok); j++ {
			if tok[j] == '=' {
				if string(tok[:j]) == tag {
					out = append(out, string(tok[j+1:]))
				}
				break
			}
		}
	}
	return out
}

// Assemble builds a framed message from BeginString value, MsgType value and
// the remaining fields (already in wire order), computing BodyLength and
// CheckSum from the definition. fields may contain tokens without '='.
func Assemble(tg Tags, begin string, msgType string, fields []Tok) []byte {
	var body []byte
	if msgType != "" {
		body = append(body, tg.MsgType...)
		body = append(body, '=')
		body = append(body, msgType...)
		body = append(body, SOH)
	}
	for _, f := range fields {
		body = append(body, f.Tag...)
		if f.HasEq {
			body = append(body, '=')
			body = append(body, f.Val...)
		}
		body = append(body, SOH)
	}
	return Frame(tg, begin, body)
}

// Frame wraps body (which must end with SOH or be empty) with BeginString,
// BodyLength and CheckSum.
func Frame(tg Tags, begin string, body []byte) []byte {
	var out []byte
	out = append(out, tg.BeginString...)
	out = append(out, '=')
	out = append(out, begin...)
	out = append(out, SOH)
	out = append(out, tg.BodyLength...)
	out = append(out, '=')
	out = append(out, strconv.Itoa(len(body))...)
	out = append(out, SOH)
	out = append(out, body...)
	sum := 0
	for _, c := range out {
		sum += int(c)
	}
	out = append(out, tg.CheckSum...)
	out = append(out, '=')
	out = append(out, fmt.Sprintf("%03d", sum%256)...)
	out = append(out, SOH)
	return out
}

// Relength rewrites the BodyLength value of a message produced by Frame (and
// recomputes the CheckSum), leaving everything else as it is: the declared length
// is the only thing wrong with the result. Messages that do not start with the
// two framing fields are returned unchanged.
func Relength(b []byte, tg Tags, newLen string) []byte {
	toks, err := Tokenize(b)
	if err != nil || len(toks) < 3 || toks[0].Tag != tg.BeginString || toks[1].Tag != tg.BodyLength {
		return b
	}
	head := len(tg.BeginString) + 1 + len(toks[0].Val) + 1
	oldField := len(tg.BodyLength) + 1 + len(toks[1].Val) + 1
	tail := len(tg.CheckSum) + 1 + 3 + 1
	if head+oldField+tail > len(b) {
		return b
	}
	var out []byte
	out = append(out, b[:head]...)
	out = append(out, tg.BodyLength...)
	out = append(out, '=')
	out = append(out, newLen...)
	out = append(out, SOH)
	out = append(out, b[head+oldField:len(b)-tail]...)
	sum := 0
	for _, c := range out {
		sum += int(c)
	}
	out = append(out, tg.CheckSum...)
	out = append(out, '=')
	out = append(out, fmt.Sprintf("%03d", sum%256)...)
	out = append(out, SOH)
	return out
}

// ExtremeLengths are BodyLength texts far from any real length.
var ExtremeLengths = []string{"0", "1", "99999", "-30", "2147483648", "99999999999999999999", "-9223372036854775808", "00000000000000000007"}

// Split cuts a byte stream into messages: a message ends with the SOH that
// terminates the first field whose tag is exactly csTag.
func Split(stream []byte, csTag string) (msgs [][]byte, rest []byte) {
	start := 0
	fieldStart := 0
	for i := 0; i < len(stream); i++ {
		if stream[i] != SOH {
			continue
		}
		tok := stream[fieldStart:i]
		fieldStart = i + 1
		if len(tok) > len(csTag) && string(tok[:len(csTag)]) == csTag && tok[len(csTag)] == '=' {
			msgs = append(msgs, stream[start:i+1])
			start = i + 1
		}
	}
	return msgs, stream[start:]
}

// FloatTextOK is the validity predicate for the wire text of a float64:
// plain decimal notation that parses back to the bit-identical value.
func FloatTextOK(text string, want float64) error {
	if text == "" {
		return fmt.Errorf("empty")
	}
	i := 0
	if text[0] == '-' || text[0] == '+' {
		i = 1
	}
	digits, dots := 0, 0
	for ; i < len(text); i++ {
		switch {
		case text[i] >= '0' && text[i] <= '9':
			digits++
		case text[i] == '.':
			dots++
		default:
			return fmt.Errorf("not plain decimal notation: %q", text)
		}
	}
	if digits == 0 || dots > 1 {
		return fmt.Errorf("not plain decimal notation: %q", text)
	}
	got, err := strconv.ParseFloat(text, 64)
	if err != nil {
		return err
	}
	if math.Float64bits(got) != math.Float64bits(want) {
		return fmt.Errorf("%q parses to %v (bits %x), want %v (bits %x)", text, got, math.Float64bits(got), want, math.Float64bits(want))
	}
	return nil
}

// TimeText renders a UTC instant as FIX UTCTimestamp with milliseconds.
func TimeText(y, mo, d, h, mi, s, ms int) string {
	return fmt.Sprintf("%04d%02d%02d-%02d:%02d:%02d.%03d", y, mo, d, h, mi, s, ms)
}

// Show renders message bytes for humans: SOH as '|', other non-printables as \xNN.
func Show(b []byte) string {
	out := make([]byte, 0, len(b))
	for _, c := range b {
		switch {
		case c == SOH:
			out = append(out, '|')
		case c == '|' || c == '\\':
			out = append(out, '\\', c)
		case c >= 0x20 && c < 0x7f:
			out = append(out, c)
		default:
			out = append(out, fmt.Sprintf("\\x%02x", c)...)
		}
	}
	return string(out)
}
