package ref

import (
	"bytes"
	"testing"

	"pgregory.net/rapid"
)

// hand-assembled vectors with lengths counted by hand
func TestFramedVectors(t *testing.T) {
	good := "8=FIX.4.4\x019=5\x0135=0\x0110=163\x01"
	// body "35=0\x01" = 5 bytes
	sum := 0
	for _, c := range []byte("8=FIX.4.4\x019=5\x0135=0\x01") {
		sum += int(c)
	}
	if sum%256 != 163 {
		t.Fatalf("vector checksum is %d", sum%256)
	}
	if err := Framed([]byte(good), StdTags); err != nil {
		t.Fatal(err)
	}
	bad := []string{
		"8=FIX.4.4\x019=6\x0135=0\x0110=164\x01",
		"8=FIX.4.4\x019=5\x0135=0\x0110=162\x01",
		"8=FIX.4.4\x019=5\x0135=0\x0110=163",
		"9=5\x018=FIX.4.4\x0135=0\x0110=163\x01",
		"8=FIX.4.4\x019=5\x0135=0\x0110=63\x01",
		"",
	}
	for _, b := range bad {
		if Framed([]byte(b), StdTags) == nil {
			t.Fatalf("accepted %q", b)
		}
	}
}

func TestAssembleFramedSplit(t *testing.T) {
	rapid.Check(t, func(t *rapid.T) {
		n := rapid.IntRange(1, 5).Draw(t, "n")
		var stream []byte
		var msgs [][]byte
		for i := 0; i < n; i++ {
			nf := rapid.IntRange(0, 6).Draw(t, "nf")
			var fs []Tok
			for j := 0; j < nf; j++ {
				tag := rapid.StringMatching(`[1-9][0-9]{0,3}`).Draw(t, "tag")
				if tag == "10" || tag == "8" || tag == "9" || tag == "35" {
					tag = "58"
				}
				v := rapid.StringMatching(`[ -~]{1,12}`).Draw(t, "v")
				fs = append(fs, Tok{tag, v, true})
			}
			m := Assemble(StdTags, "FIX.4.4", "D", fs)
			if err := Framed(m, StdTags); err != nil {
				t.Fatalf("%q: %v", m, err)
			}
			toks, _ := Tokenize(m)
			if len(toks) != nf+4 {
				t.Fatalf("tokens %d want %d", len(toks), nf+4)
			}
			for j, f := range fs {
				if toks[3+j] != f {
					t.Fatalf("token %d = %v want %v", j, toks[3+j], f)
				}
			}
			msgs = append(msgs, m)
			stream = append(stream, m...)
		}
		got, rest := Split(stream, "10")
		if len(rest) != 0 || len(got) != len(msgs) {
			t.Fatalf("split %d rest %d", len(got), len(rest))
		}
		for i := range got {
			if !bytes.Equal(got[i], msgs[i]) {
				t.Fatalf("split mismatch")
			}
		}
	})
}
