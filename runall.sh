#!/bin/bash
# runall.sh [quick|thorough]: every check once, summary lines only; exit 1 if any check did not exit 0
cd /verif; T=${1:-quick}; bad=0
for p in C01 C02 C03 C04 C05 C06 C07 C08 C09 C10 C11 C12 C13 C14 C15 C16 C17 C18 C19 C20; do
  out=$(./check $p $T 2>&1); rc=$?
  echo "$p rc=$rc $(echo "$out" | grep "^$p $T:" | cut -c1-120)"
  if [ $rc -ne 0 ]; then bad=1; echo "$out" | grep "VIOLATION\|TROUBLE\|VACUOUS" | head -5 | cut -c1-300; fi
done
exit $bad
