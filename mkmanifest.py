#!/usr/bin/env python3
"""Writes MANIFEST.json from checks_config.py (+ manifest_text.py)."""
import json, os, sys
ROOT = os.path.dirname(os.path.abspath(__file__))
sys.path.insert(0, ROOT)
from checks_config import CHECKS
from manifest_text import TEXT, NOT_APPLICABLE

checks = []
for pid in sorted(CHECKS):
    cfg = CHECKS[pid]
    t = TEXT[pid]
    checks.append(dict(
        property_id=pid,
        quick_cmd="./check %s quick" % pid,
        thorough_cmd="./check %s thorough" % pid,
        evidence_file="/verif/evidence/%s.json" % pid,
        replay_cmd_template="./check %s --replay {path}" % pid,
        engine=t.get("engine", "rapid"),
        level_claimed=dict(category=cfg["level"], text=t["level_text"], design_ref=t["design_ref"]),
        level_note=t["level_note"],
        technique=t["technique"],
    ))
m = dict(
    version=1,
    setup_cmd="./check --setup",
    hooks=dict(guard="verif", enable="no hooks are needed: every check observes the library through its public API, injected net.Conn/net.Listener/stores/handlers and the synctest virtual clock; nothing in /repo is built with the tag",
               baseline_off_cmd="cd /repo && go test -vet=off -count=1 ./...", source_commits=[], add_only=True),
    engines=[
        dict(name="rapid", path="/verif/harness", serves_properties=sorted(CHECKS), kind_free_text="pgregory.net/rapid v1.3.0 property-based tests (generators, state-machine histories, shrinking) under go1.26.8; session checks run inside testing/synctest bubbles (virtual clock)"),
        dict(name="gofuzz", path="/verif/harness/codec", serves_properties=[p for p in ("C03", "C11", "C18") if p in CHECKS], kind_free_text="native go test -fuzz targets with the semantic oracle inside the target (thorough tier only)"),
    ],
    checks=checks,
    not_applicable=NOT_APPLICABLE,
    notes="Driver: ./check <id> quick|thorough; VERIF_SEED selects the rapid seeds (seed = VERIF_SEED*1000003 + job*1009 + shard). Exit 2 = infrastructure/inconclusive. Known findings: KNOWN_FINDINGS.jsonl. Regression replays: replays/<id>/regress/*.json are re-run (without rapid) before every search.",
)
json.dump(m, open(os.path.join(ROOT, "MANIFEST.json"), "w"), indent=1)
print("MANIFEST.json: %d checks, %d not applicable" % (len(checks), len(NOT_APPLICABLE)))
