# Per-property configuration of the driver (./check). One entry per claimed
# property: the test functions ("jobs") that decide it, their case counts per
# tier, the evidence level and the non-triviality rule reported as evidence.
CHECKS = {
    "C01": dict(
        level="exploration",
        rule="rapid-generated (template, population, values) with BodyLength/CheckSum steering, serialized by the library and judged by an independent framing checker; non-trivial = at least one populated field besides the framing fields; distinct by (template shape, population shape incl. routes, BodyLength digit count, checksum class)",
        jobs=[dict(pkg="codec", test="TestC01", quick=40000, thorough=1500000, shards=16)],
        need_classes=["bodylength-digits=1", "bodylength-digits=2", "bodylength-digits=3", "bodylength-digits=4", "bodylength-digits=5", "cs<10", "cs<100", "empty-header", "custom-framing-tags", "fix44:.*"],
        assumptions=["values contain no SOH; BeginString and MsgType values are non-empty; header and trailer components are set"],
    ),
    "C17": dict(
        level="exploration",
        rule="same generator as C01 with every installation route (constructor, Set, KeyValue.Set, FromBytes) for every value type in header, body and trailer; wire tokens compared with the model's list of populated leaves; non-trivial = >=2 value types populated and >=1 unpopulated leaf; distinct by (template shape, population shape incl. routes)",
        jobs=[dict(pkg="codec", test="TestC17", quick=40000, thorough=1500000, shards=16)],
        assumptions=["values contain no SOH and are non-empty; Float text judged by a validity predicate (plain decimal, bit-exact round trip)"],
    ),
}
