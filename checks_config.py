# Per-property configuration of the driver (./check). One entry per claimed
# property: the test functions ("jobs") that decide it, their case counts per
# tier, the evidence level and the non-triviality rule reported as evidence.
CHECKS = {
    "C01": dict(
        level="exploration",
        rule="rapid-generated (template, population, values) with BodyLength/CheckSum steering, serialized by the library and judged by an independent framing checker; non-trivial = at least one populated field besides the framing fields; distinct by (template shape, population shape incl. routes, BodyLength digit count, checksum class)",
        jobs=[dict(pkg="codec", test="TestC01", quick=40000, thorough=1500000, shards=16)],
        need_classes=["bodylength-digits=1", "bodylength-digits=2", "bodylength-digits=3", "bodylength-digits=4", "bodylength-digits=5", "cs<10", "cs<100", "empty-header", "custom-framing-tags", "fix44:.*"],
        assumptions=["values contain no SOH; BeginString and MsgType values are non-empty; header and trailer components are set"],
    ),
    "C17": dict(
        level="exploration",
        rule="same generator as C01 with every installation route (constructor, Set, KeyValue.Set, FromBytes) for every value type in header, body and trailer; wire tokens compared with the model's list of populated leaves; non-trivial = >=2 value types populated and >=1 unpopulated leaf; distinct by (template shape, population shape incl. routes)",
        jobs=[dict(pkg="codec", test="TestC17", quick=40000, thorough=1500000, shards=16)],
        assumptions=["values contain no SOH and are non-empty; Float text judged by a validity predicate (plain decimal, bit-exact round trip)"],
    ),
    "C02": dict(
        level="exploration",
        rule="generated (template, population, values) incl. decoy strings, nesting to depth 4 and all tests/fix44 types; serialized by the library, parsed by both parser entry points into a fresh message, compared leaf by leaf with the generated model, and re-serialized; non-trivial = a group with >=2 entries, or >=3 value types populated, or a decoy value; distinct by serialized bytes",
        jobs=[dict(pkg="codec", test="TestC02", quick=30000, thorough=1000000, shards=16)],
        need_classes=["depth=[3-9]", "max-entries=[2-9]", "with-decoy", "type:Bool", "type:Uint", "type:Float", "type:Time", "type:Raw", "fix44:MarketDataRequest"],
        assumptions=["C02's preconditions hold by construction: unique tags per template, every entry populates its first field, no empty value, no SOH", "trailer fields are not populated (the serializer drops them: known finding of C17)"],
    ),
    "C18": dict(
        level="exploration",
        rule="REF-assembled, correctly framed messages over generated templates with prefix/suffix tag families, decoy values 't=..' for template tags and foreign fields whose tag is an affix relative of a template tag; oracle (a) fix.ValueByTag vs an independent tokenizing lookup for every template tag and affix variants, (b) Unmarshal result equals the model; non-trivial = message contains a decoy value or an affix-related foreign field; distinct by message bytes",
        jobs=[dict(pkg="codec", test="TestC18", quick=40000, thorough=1500000, shards=16)],
        need_classes=["decoy-value", "foreign:template-tag-is-suffix", "foreign:template-tag-is-prefix", "foreign:suffix-of-template-tag", "foreign:prefix-of-template-tag"],
        assumptions=["messages are well formed: BeginString first, correct BodyLength/CheckSum, unique template tags, non-empty SOH-free values"],
    ),
}
