# Per-property configuration of the driver (./check). One entry per claimed
# property: the test functions ("jobs") that decide it, their case counts per
# tier, the evidence level and the non-triviality rule reported as evidence.
CHECKS = {
    "C01": dict(
        level="exploration",
        rule="rapid-generated (template, population, values) with BodyLength/CheckSum steering, serialized by the library and judged by an independent framing checker; non-trivial = at least one populated field besides the framing fields; distinct by (template shape, population shape incl. routes, BodyLength digit count, checksum class)",
        jobs=[dict(pkg="codec", test="TestC01", quick=40000, thorough=1500000, shards=16)],
        need_classes=["bodylength-digits=1", "bodylength-digits=2", "bodylength-digits=3", "bodylength-digits=4", "bodylength-digits=5", "cs<10", "cs<100", "empty-header", "custom-framing-tags", "fix44:.*"],
        assumptions=["values contain no SOH; BeginString and MsgType values are non-empty; header and trailer components are set"],
    ),
    "C17": dict(
        level="exploration",
        rule="same generator as C01 with every installation route (constructor, Set, KeyValue.Set, FromBytes) for every value type in header, body and trailer; wire tokens compared with the model's list of populated leaves; non-trivial = >=2 value types populated and >=1 unpopulated leaf; distinct by (template shape, population shape incl. routes)",
        jobs=[dict(pkg="codec", test="TestC17", quick=40000, thorough=1500000, shards=16)],
        assumptions=["values contain no SOH and are non-empty; Float text judged by a validity predicate (plain decimal, bit-exact round trip)"],
    ),
    "C02": dict(
        level="exploration",
        rule="generated (template, population, values) incl. decoy strings, nesting to depth 4 and all tests/fix44 types; serialized by the library, parsed by both parser entry points into a fresh message, compared leaf by leaf with the generated model, and re-serialized; non-trivial = a group with >=2 entries, or >=3 value types populated, or a decoy value; distinct by serialized bytes",
        jobs=[dict(pkg="codec", test="TestC02", quick=30000, thorough=1000000, shards=16)],
        need_classes=["depth=[3-9]", "max-entries=[2-9]", "with-decoy", "type:Bool", "type:Uint", "type:Float", "type:Time", "type:Raw", "fix44:MarketDataRequest"],
        assumptions=["C02's preconditions hold by construction: unique tags per template, every entry populates its first field, no empty value, no SOH", "trailer fields are not populated (the serializer drops them: known finding of C17)"],
    ),
    "C18": dict(
        level="exploration",
        rule="REF-assembled, correctly framed messages over generated templates with prefix/suffix tag families, decoy values 't=..' for template tags and foreign fields whose tag is an affix relative of a template tag; oracle (a) fix.ValueByTag vs an independent tokenizing lookup for every template tag and affix variants, (b) Unmarshal result equals the model; non-trivial = message contains a decoy value or an affix-related foreign field; distinct by message bytes",
        jobs=[dict(pkg="codec", test="TestC18", quick=40000, thorough=1500000, shards=16)],
        need_classes=["decoy-value", "foreign:template-tag-is-suffix", "foreign:template-tag-is-prefix", "foreign:suffix-of-template-tag", "foreign:prefix-of-template-tag"],
        assumptions=["messages are well formed: BeginString first, correct BodyLength/CheckSum, unique template tags, non-empty SOH-free values"],
    ),
    "C03": dict(
        level="fault_enumeration",
        rule="base messages are rapid-generated valid serialized messages (incl. adversarial ones carrying a decoy CheckSum in a value); for each base the COMPLETE single-byte damage neighbourhood is enumerated (every position x 255 substitutions, every interior insertion position x 256 values, every deletion, every proper prefix) and offered to both parser entry points; oracle: accepted => an independent reader confirms BodyLength and CheckSum. evaluations counts variants; distinct_nontrivial counts distinct base messages whose neighbourhood was enumerated completely (exhaustive per base, not over bases)",
        jobs=[dict(pkg="codec", test="TestC03", quick=640, thorough=16000, shards=16, shrinktime=60)],
        need_classes=["adversarial-base"],
        coverage_extra=dict(exhaustive=False, exhaustive_note="complete per base message (see complete_neighbourhoods); base messages themselves are sampled"),
        assumptions=["variants that remain consistently framed (NUL inserted into or deleted from the BeginString value: counted by neither BodyLength nor, being 0, the checksum) are valid messages and may be accepted; they are counted as still_framed_variants"],
    ),
    "C11": dict(
        level="exploration",
        rule="engine raw: byte strings of the classes empty/tiny/no-delimiter/no-equals/only-delimiters/repeated-delimiters/random/mutated-valid, capacity-clamped or as prefix of a larger buffer; engine framed: hostile token lists (template count tags and entry delimiters over-represented, bare tokens, empty tokens, disagreeing counts) framed by REF with correct BodyLength/CheckSum; each parsed into generated templates (nested groups) and tests/fix44 types by both parser entry points, plus fix.ValueByTag lookups, under recover() and a 20 s hang watchdog; non-trivial = input is consistently framed AND names a tag of the target template; distinct by (input, template)",
        jobs=[dict(pkg="codec", test="TestC11Raw", quick=120000, thorough=6000000, shards=8),
              dict(pkg="codec", test="TestC11Framed", quick=160000, thorough=8000000, shards=8)],
        need_classes=["class:empty", "class:tiny", "class:framed-hostile", "class:framed-near-valid", "class:mutated-valid", "reached-group-splitting", "capacity-clamped"],
        assumptions=["a single parser call on an input <= 8 KiB taking more than 20 s wall clock is a hang (expected cost: microseconds to milliseconds)"],
    ),
    "C06": dict(
        level="exploration",
        rule="rapid-generated inbound histories (Logons with every combination of heartbeat-interval class, method class, credentials, damage; heartbeats, test requests, resend requests, logouts, application/unknown types; local sends and logouts; bounded virtual-time advances) run against the real handler+session in a synctest bubble; a monitor re-derives from the history when the session may be logged on and what each Logon must be answered with; non-trivial = history holds a refused/damaged Logon AND an acceptable one, or a Logon while logged on; distinct by the abstract sequence of (Logon verdict, model state)",
        jobs=[dict(pkg="sess", test="TestC06", quick=8000, thorough=400000, shards=16)],
        need_classes=["role:acceptor", "role:initiator", "logon-while-logged-on", "refused-or-damaged-logon", "acceptable-logon"],
        assumptions=["virtual clock (testing/synctest): outputs are attributed to the step that caused them by synctest.Wait", "time advances stay below the smallest negotiable heartbeat interval so that no timer acts in these histories", "a Logon without MsgSeqNum is not judged (the library accepts it; the property does not say)"],
    ),
    "C14": dict(
        level="exploration",
        rule="logged-on sessions of both roles receive TestRequests with generated TestReqIDs (1-5000 bytes, any byte but SOH, decoys like 112=x, 10=000) singly and in bursts of 2-8 inbound messages (test requests mixed with heartbeats, resend requests, application messages, Logon-while-logged-on) delivered without waiting; monitor: exactly one fresh Heartbeat per TestRequest, byte-identical TestReqID, in request order and before Rejects answering later inbound messages; non-trivial = an ID with a non-alphanumeric byte or a burst with >=2 TestRequests; distinct by (role, per-step request count and ID class)",
        jobs=[dict(pkg="sess", test="TestC14", quick=10000, thorough=400000, shards=16)],
        need_classes=["role:acceptor", "role:initiator", "burst:[2-9]:.*", "in:1:special"],
        assumptions=["retransmissions (outputs whose MsgSeqNum is not above every number seen before) are answers to ResendRequests and are not counted as Heartbeat answers"],
    ),
    "C07": dict(
        level="exploration",
        rule="histories that contain no acceptable Logon by construction (every Logon refused or damaged; for the initiator every Logon damaged), rich in ResendRequests over all ranges, test requests, heartbeats, logouts, application/unknown types and idle stretches up to 10 virtual minutes, against an empty message store or one already holding the messages of an earlier logged-on session on the same memory.Storage; monitor: every emitted message has MsgType A, 5 or 3 and none is byte-identical to a message of the earlier session; non-trivial = store pre-populated AND a ResendRequest range intersecting it, or total idle time >= the largest permitted interval; distinct by abstract history",
        jobs=[dict(pkg="sess", test="TestC07", quick=8000, thorough=400000, shards=16)],
        need_classes=["role:acceptor", "role:initiator", "store-prepopulated", "resend-range-intersects-store", "idle-longer-than-max-interval"],
        assumptions=["the earlier session ran to completion before the unauthenticated connection starts (a session running in parallel is not generated)"],
    ),
    "C16": dict(
        level="exploration",
        rule="table {Logon,Logout,Heartbeat,TestRequest,ResendRequest} x {wrong checksum, wrong body length, non-numeric numeric field, non-numeric MsgSeqNum alone or combined with wrong checksum, missing MsgSeqNum combined with wrong checksum/body length, not permitted in state} x {waiting for Logon (acceptor) / awaiting answer (initiator), logged on, after logout}, each cell with rapid-drawn surroundings (prefix traffic, buffer size, role, limits) and followed by valid traffic; REF assembles the damaged message so that exactly the intended damage is present; monitor: exactly one Reject referencing the offender (RefSeqNum, or RefTagID=34), IsLogged unchanged, session and handler not stopped, next valid message handled normally; non-trivial = the valid follow-up was delivered and judged; distinct by (role, type, damage, state, position)",
        jobs=[dict(pkg="sess", test="TestC16", quick=8000, thorough=300000, shards=16)],
        need_classes=["cell:A:.*", "cell:5:.*", "cell:0:.*", "cell:1:.*", "cell:2:.*", "cell:.*:state:.*", "cell:.*:noseq\\+checksum:.*", "cell:.*:logged", "cell:.*:waiting", "cell:.*:afterlogout"],
        assumptions=["no idle time passes in these histories (so IsLogged is not affected by the test-request probe state)", "a message whose only defect is a missing MsgSeqNum is not generated (the library treats it as valid; the property names the tag only for messages invalid for another reason)"],
    ),
    "C10": dict(
        level="exploration",
        rule="logged-on sessions with an outbound prefix of 0-40 messages (fresh application messages, TestRequest answers, Rejects, timer Heartbeats) whose first transmissions are recorded per MsgSeqNum, then 1-6 ResendRequests over ranges inside / b=e / e=0 / partly or wholly beyond / b>e / b=0 / repeated; oracle: emitted messages are byte-identical to first[k] with k in range, and exactly first[b..e] (or first[b..last] for e=0) when 1<=b<=e<=last; second engine: Logon carrying MsgSeqNum r against a counter store whose last inbound number is c, for small and large (c,r): ResendRequest from c+1 iff r>c+1; non-trivial = >=3 messages sent before a request with b<e or e=0 (engine 1), r>c+1 (engine 2); distinct by (last,b,e) sequence / (role,c,r)",
        jobs=[dict(pkg="sess", test="TestC10", quick=8000, thorough=300000, shards=16),
              dict(pkg="sess", test="TestC10Gap", quick=4000, thorough=100000, shards=8)],
        need_classes=["range:inside", "range:to-end", "range:beyond", "range:partly-beyond", "range:b>e", "range:b=0", "gap", "no-gap", "reused-message-object"],
        assumptions=["application messages are fresh objects except in the explicit reuse class (5% of cases), see the known finding keyed resend-differs:reused-object"],
    ),
}
