#!/usr/bin/env python3
"""keepfound.py <id> [key-substring]: list found replays per violation key; with --keep copies the smallest per key into regress/."""
import json, glob, shutil, sys, os, re
pid = sys.argv[1]
keep = '--keep' in sys.argv
seen = {}
for f in glob.glob('/verif/replays/%s/found/*.json' % pid):
    d = json.load(open(f))
    for v in d.get('violations', []):
        seen.setdefault(v['key'], []).append((os.path.getsize(f), f, v['msg'][:500]))
for k, l in sorted(seen.items()):
    l.sort()
    print(k, len(l), l[0][1])
    print('    ', l[0][2])
    if keep:
        os.makedirs('/verif/replays/%s/regress' % pid, exist_ok=True)
        dst = '/verif/replays/%s/regress/%s.json' % (pid, re.sub(r'[^A-Za-z0-9_.-]', '_', k))
        if not os.path.exists(dst):
            shutil.copy(l[0][1], dst)
if keep:
    shutil.rmtree('/verif/replays/%s/found' % pid, ignore_errors=True)
