#!/bin/bash
# seedeval.sh <property> <mutant-letter> [checks...]
# Confirms a seeded change (from /tmp/wt/<property>/mutants or /verif/seeded/<property>-<x>) in a scratch
# worktree (builds, suite passes, demo fails with / passes without), then applies it to /repo, runs the
# given checks' quick tier (default: the property's own) and undoes it. Prints a summary line.
set -u
P=$1; X=$2; shift 2
CHECKS=${*:-$P}
SRC=/tmp/wt/$P/mutants
[ -d /verif/seeded/$P-$X ] && SRC=/verif/seeded/$P-$X
DIFF=$SRC/$X.diff; [ -f $SRC/patch.diff ] && DIFF=$SRC/patch.diff
# a patch written against an older tree may have been re-based by hand onto the current one
[ -f $SRC/patch.rebased.diff ] && DIFF=$SRC/patch.rebased.diff
DEMO=$(ls $SRC/${X}_demo_test.go $SRC/demo_test.go 2>/dev/null | head -1)
export GOFLAGS=-mod=mod GOPROXY=off GOSUMDB=off
W=/tmp/eval-$P-$X
rm -rf $W; git -C /repo worktree prune; git -C /repo worktree add -q --detach $W HEAD || exit 2
PKGDIR=${PKGDIR:-}
if [ -z "$PKGDIR" ] && [ -f $SRC/meta.json ]; then PKGDIR=$(python3 -c "import json;print(json.load(open('$SRC/meta.json')).get('demo_dir',''))"); fi
if [ -z "$PKGDIR" ] && [ -n "$DEMO" ]; then
  PK=$(grep -m1 '^package ' $DEMO | awk '{print $2}' | sed 's/_test$//')
  case $PK in
    fix) PKGDIR=fix;; encoding) PKGDIR=fix/encoding;; simplefixgo) PKGDIR=.;; session) PKGDIR=session;;
    tests) PKGDIR=tests;; memory) PKGDIR=storages/memory;; utils) PKGDIR=utils;; generator) PKGDIR=generator;;
    main) PKGDIR=cmd/fixgen;; messages) PKGDIR=session/messages;; fix44) PKGDIR=tests/fix44;; *) PKGDIR=;;
  esac
fi
echo "== $P-$X: diff $(wc -l < $DIFF) lines, demo $DEMO, pkgdir '${PKGDIR}'"
cd $W
if ! git apply $DIFF; then echo "RESULT $P-$X: diff does not apply"; cd /; git -C /repo worktree remove --force $W; exit 1; fi
BUILD=ok; go build ./... >/tmp/eval.log 2>&1 || BUILD=FAIL
SUITE=ok; go test -vet=off -count=1 ./... >/tmp/eval-suite.log 2>&1 || { go test -vet=off -count=1 ./... >/tmp/eval-suite.log 2>&1 || SUITE=FAIL; }
DEMOWITH=skip; DEMOWITHOUT=skip
if [ -n "$DEMO" ] && [ -n "$PKGDIR" ]; then
  cp $DEMO $W/$PKGDIR/zz_mutant_demo_test.go
  FLAGS=""; grep -q -- "-race" $SRC/$X.md $SRC/notes.md 2>/dev/null && FLAGS="-race"
  DEMOWITH=passes; go test $FLAGS -vet=off -count=1 -run "[Mm]utant" ./$PKGDIR/ >/tmp/eval-demo1.log 2>&1 || DEMOWITH=fails
  git apply -R $DIFF
  DEMOWITHOUT=passes; go test $FLAGS -vet=off -count=1 -run "[Mm]utant" ./$PKGDIR/ >/tmp/eval-demo2.log 2>&1 || DEMOWITHOUT=fails
fi
cd /; git -C /repo worktree remove --force $W
echo "   build=$BUILD suite=$SUITE demo-with-change=$DEMOWITH demo-without=$DEMOWITHOUT"
# now our checks, against a scratch copy of /repo with the change applied (VERIF_REPO), so that
# /repo itself stays untouched and several evaluations can run side by side
S=/tmp/evalrepo-$P-$X
rm -rf $S; git -C /repo worktree prune; git -C /repo worktree add -q --detach $S HEAD || exit 2
git -C $S apply $DIFF || { echo "RESULT $P-$X: diff does not apply"; git -C /repo worktree remove --force $S; exit 1; }
export VERIF_REPO=$S
for C in $CHECKS; do
  OUT=$(cd /verif && ./check $C quick 2>&1); RC=$?
  V=$(echo "$OUT" | grep -c '^VIOLATION')
  K=$(echo "$OUT" | grep '^VIOLATION' | head -1 | sed 's/.*replay=//')
  KEY=""; [ -n "$K" ] && KEY=$(python3 -c "import json;print(json.load(open('$K'))['violations'][0]['key'])" 2>/dev/null)
  echo "   check $C: exit=$RC violations=$V key=$KEY"
done
unset VERIF_REPO
git -C /repo worktree remove --force $S
rm -rf /verif/.run/alt-*/replays
echo "RESULT $P-$X: build=$BUILD suite=$SUITE demo=$DEMOWITH/$DEMOWITHOUT"
