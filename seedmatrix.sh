#!/bin/bash
# Runs every seeded change against its own property's quick check (search only, regress tier off)
# and writes seeded/RESULTS.tsv. /repo is patched and restored for each one: run nothing else meanwhile.
cd /verif
export VERIF_NO_REGRESS=1
OUT=${OUT:-seeded/RESULTS.tsv}
PATTERN=${PATTERN:-seeded/C*-*}
printf "mutant\tconfirmed\town_check\tkey\tother_checks\n" > $OUT
declare -A EXTRA=( [C14-c]="C04" [C14-d]="C19" [C06-d]="C09" [C09-c]="C08" [C02-c]="C17" [C17-d]="C02" [C08-c]="C19" [C15-d]="C09" [C10-d]="C09" [C16-d]="C07" [C07-d]="C06" [C03-d]="C01" [C05-c]="C10" [C05-d]="C06" [C19-d]="C04" [C18-a]="C04" [C19-b]="C10" [C14-a]="C09" [C05-b]="C10" [C16-b]="C06" [C20-b]="C10" [C09-b]="C08" [C08-b]="C09" [C11-b]="C18" [C18-b]="C02" )
for d in $PATTERN; do
  m=$(basename $d); P=${m%-*}; X=${m#*-}
  R=$(./seedeval.sh $P $X $P ${EXTRA[$m]:-} 2>&1)
  conf=$(echo "$R" | grep -o "build=[a-zA-Z]* suite=[a-zA-Z]* demo-with-change=[a-z]* demo-without=[a-z]*" | head -1 | sed 's/demo-with-change=//; s/demo-without=/\//; s/ \//\//')
  own=$(echo "$R" | grep "check $P:" | head -1 | sed 's/.*exit=\([0-9]*\).*/\1/')
  key=$(echo "$R" | grep "check $P:" | head -1 | sed 's/.*key=//')
  other=$(echo "$R" | grep "check " | grep -v "check $P:" | sed 's/ *check \(C[0-9]*\): exit=\([0-9]*\).*/\1=\2/' | tr '\n' ' ')
  printf "%s\t%s\t%s\t%s\t%s\n" "$m" "$conf" "$own" "$key" "$other" >> $OUT
done
git -C /repo status --short
