#!/bin/bash
# Runs every seeded change (or those matching $PATTERN) against its own property's quick check (search only,
# saved-replay tier off) and the neighbouring checks listed below, each on its own scratch copy of /repo
# (VERIF_REPO), $JOBS at a time, and writes $OUT (default seeded/RESULTS.tsv).
cd /verif
export VERIF_NO_REGRESS=1
OUT=${OUT:-seeded/RESULTS.tsv}
PATTERN=${PATTERN:-seeded/C*-*}
JOBS=${JOBS:-4}
one() {
  m=$(basename $1); P=${m%-*}; X=${m#*-}
  case $m in
    C18-a) E="C04";; C19-b) E="C10";; C14-a) E="C09";; C05-b) E="C10";; C16-b) E="C06";; C20-b) E="C10";; C09-b) E="C08";; C08-b) E="C09";;
    C11-b) E="C18";; C18-b) E="C02";; C14-c) E="C04";; C14-d) E="C19";; C06-d) E="C09";; C02-c) E="C17";; C17-d) E="C02";; C15-d) E="C09";;
    C10-d) E="C09";; C16-d) E="C07";; C07-d) E="C06";; C03-d) E="C01";; C05-d) E="C06";; *) E="";;
  esac
  R=$(./seedeval.sh $P $X $P $E 2>&1)
  conf=$(echo "$R" | grep -o "build=[a-zA-Z]* suite=[a-zA-Z]* demo-with-change=[a-z]* demo-without=[a-z]*" | head -1 | sed 's/demo-with-change=//; s/ demo-without=/\//')
  echo "$R" | grep -q "does not apply" && conf="patch no longer applies to the current tree"
  own=$(echo "$R" | grep "check $P:" | head -1 | sed 's/.*exit=\([0-9]*\).*/\1/')
  key=$(echo "$R" | grep "check $P:" | head -1 | sed 's/.*key=//')
  other=$(echo "$R" | grep "check " | grep -v "check $P:" | sed 's/ *check \(C[0-9]*\): exit=\([0-9]*\).*/\1=\2/' | tr '\n' ' ')
  printf "%s\t%s\t%s\t%s\t%s\n" "$m" "$conf" "$own" "$key" "$other"
}
export -f one
ls -d $PATTERN | xargs -P $JOBS -I{} bash -c 'one {}' | sort > $OUT.body
( printf "mutant\tconfirmed\town_check\tkey\tother_checks\n"; cat $OUT.body ) > $OUT; rm -f $OUT.body
